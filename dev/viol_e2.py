import sys, json
sys.path.insert(0, '/verif')
from rv import common, e2prop
import importlib
if __name__ == "__main__":
    mod = importlib.import_module("rv.props." + sys.argv[1])
    tier = sys.argv[2]
    only = sys.argv[3:] 
    from rv.e2 import explore
    bindir = common.build_subject()
    ex = explore.E2Explorer(bindir)
    seen = {}
    try:
        for scn, bound in mod.scenarios(tier):
            if only and scn["name"] not in only: continue
            if hasattr(mod, "prepare"): mod.prepare(ex, scn)
            r = ex.explore(scn, bound, lambda s, res: e2prop.base_oracle(s, res) + mod.oracle(s, res), budget_s=300)
            print("##", scn["name"], {k: r[k] for k in ("schedules", "bound_done", "outcomes", "verdicts", "retries")}, r["sched_errors"][:2])
            for devs, sig, detail in r["violations"]:
                k = json.dumps(sig, sort_keys=True)
                if k in seen: continue
                seen[k] = 1
                print("  VIOL", sig); print("      devs", devs); print("      ", json.dumps(detail)[:900])
    finally:
        ex.close(); common.cleanup_scratch()
