"""Own deliberate property-breaking changes (DESIGN.md section 6): apply each to a scratch worktree, run the
owning check (quick) against it, optionally the baseline tests; print a table."""
import json, os, subprocess, sys, time
from pathlib import Path
WT = Path("/tmp/wt/own")
M = {
 "m01-parent-bound-min": ("C01", "src/deps.rs", "                        cmp::max(\n                            f.changed_runid", "                        cmp::min(\n                            f.changed_runid"),
 "m02-no-zap-deps2": ("C02", "src/builder.rs", "        if let Err(e) = sf.zap_deps2(ptx) {", "        if let Err(e) = if rv == EXIT_SUCCESS { Ok(()) } else { sf.zap_deps2(ptx) } {"),
 "m03-stamp-refresh-marks-changed": ("C03", "src/builder.rs", "                sf.stamp = Some(\n                    sf.read_stamp(ptx.state().env())\n                        .expect(\"target file stat failed\"),\n                );", "                sf.stamp = Some(\n                    sf.read_stamp(ptx.state().env())\n                        .expect(\"target file stat failed\"),\n                );\n                sf.set_changed(ptx.state().env());"),
 "m05-failed-not-remembered": ("C05", "src/state.rs", "        self.failed_runid = v.runid;\n\n        // if we failed", "        self.failed_runid = None;\n\n        // if we failed"),
 "m08-no-destroy-token": ("C08", "src/jobserver.rs", "            state.destroy_tokens(1);\n        }\n        let (r, w) = make_pipe(50)", "        }\n        let (r, w) = make_pipe(50)"),
 "m11-override-never-detected": ("C11", "src/state.rs", "        if stamp1 == stamp2 {\n            return false;\n        }", "        if stamp1 == stamp2 || stamp1.0.len() == stamp2.0.len() {\n            return false;\n        }"),
 "m14-always-not-bumped": ("C14", "src/state.rs", "        if f.name.as_str() == ALWAYS {\n            if let Some(env_runid) = runid {", "        if f.name.as_str() == ALWAYS && false {\n            if let Some(env_runid) = runid {"),
 "m16-deferred-target-txn": ("C16", "src/builder.rs", "                let mut ptx = ProcessTransaction::new(*ps, TransactionBehavior::Immediate)\n                    .map_err(RedoError::opaque_error)?;\n                ptx.set_drop_behavior(DropBehavior::Commit);\n                let mut f = state::File::from_name(&mut ptx, t, true)?;", "                let mut ptx = ProcessTransaction::new(*ps, TransactionBehavior::Deferred)\n                    .map_err(RedoError::opaque_error)?;\n                ptx.set_drop_behavior(DropBehavior::Commit);\n                let mut f = state::File::from_name(&mut ptx, t, true)?;"),
 "m17-ood-commits-checked": ("C17", "src/bin/redo/ood.rs", "        .set_checked(|f, _| {\n            cache.borrow_mut().insert(f.id());\n            Ok(())\n        })", "        .set_checked(|f, ptx| {\n            cache.borrow_mut().insert(f.id());\n            f.set_checked(ptx.state().env());\n            f.save(ptx)\n        })"),
 "m15-no-id-dedupe": ("C15", "src/builder.rs", "                if !seen_ids.insert(f.id()) {\n                    continue;\n                }\n", ""),
 "m13-ext-order-reversed": ("C13", "src/paths.rs", None, None),
}
def sh(cmd, **kw): return subprocess.run(cmd, stdout=subprocess.PIPE, stderr=subprocess.STDOUT, text=True, **kw)
def main():
    only = sys.argv[1:]
    if not WT.exists():
        print(sh(["git","-C","/repo","worktree","add","-q","--detach",str(WT),"HEAD"]).stdout)
    for name,(prop,f,old,new) in M.items():
        if only and name not in only: continue
        if old is None: continue
        sh(["git","-C",str(WT),"checkout","--","."])
        p = WT/f; s = p.read_text()
        if s.count(old) != 1:
            print(name, "PATTERN-NOT-FOUND", s.count(old)); continue
        p.write_text(s.replace(old,new))
        t0=time.time()
        r = sh(["/verif/bin/check", prop, "--tier", "quick"], env=dict(os.environ, VERIF_REPO=str(WT)), cwd="/verif")
        viol = [l for l in r.stdout.split("\n") if l.startswith("VIOLATION")]
        what = r.stdout.split("what:")[1].split("\n")[0][:150] if "what:" in r.stdout else r.stdout[-200:].replace("\n"," ")
        print(name, prop, "rc=%d"%r.returncode, "DETECTED" if viol else "MISSED", "%.0fs"%(time.time()-t0), what, flush=True)
    sh(["git","-C",str(WT),"checkout","--","."])
    sh(["git","-C","/verif","checkout","--","evidence"])
main()
