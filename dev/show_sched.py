import sys
sys.path.insert(0, '/verif')
from rv import common
from rv.e2 import explore
import importlib
if __name__ == "__main__":
    bindir = common.build_subject()
    scn = {s["name"]: s for s, _ in importlib.import_module("rv.props." + sys.argv[2].lower()).scenarios("thorough")}[sys.argv[1]]
    ex = explore.E2Explorer(bindir, workers=1)
    _, r = explore._run(scn, (), ex.bindir, ex.scratch)
    ex.close(); common.cleanup_scratch()
    for s in r["steps"]:
        print(s["i"], s["lid"], s["kind"], s["label"], s["detail"][:60], "|", [e[0]+":"+e[1] for e in s["enabled"]])
    print(r["verdict"], r["roots"], r["trace"])
    for k, v in r["stderr"].items(): print(k, v[-400:])
