import sys, json, time
sys.path.insert(0, '/verif')
from rv import common
from rv.e2 import explore, scenarios as SC
from rv.props import c09
if __name__ == "__main__":
    bindir = common.build_subject()
    name = sys.argv[1]; n = int(sys.argv[2])
    scn = {s["name"]: s for s, _ in c09.scenarios("thorough")}[name]
    ex = explore.E2Explorer(bindir, workers=8)
    runs = list(ex.pool.map(explore._run, [scn]*n, [()]*n, [ex.bindir]*n, [ex.scratch]*n))
    ex.close(); common.cleanup_scratch()
    base = [(s["lid"], s["kind"], s["label"], s["detail"], tuple(map(tuple, s["enabled"]))) for s in runs[0][1]["steps"]]
    for k, (_, r) in enumerate(runs[1:]):
        cur = [(s["lid"], s["kind"], s["label"], s["detail"], tuple(map(tuple, s["enabled"]))) for s in r["steps"]]
        for i, (a, b) in enumerate(zip(base, cur)):
            if a != b:
                print("run", k+1, "differs at step", i); print("  A", a); print("  B", b)
                for j in range(max(0,i-4), i): print("   prev", base[j][:4])
                break
        else:
            print("run", k+1, "same", len(base), len(cur))
