"""dev/cov_table.py [thorough-log ...] -- the table of DESIGN.md 9.5 from evidence/*.json (quick) and thorough run logs"""
import glob, json, re, sys
th = {}
for f in sys.argv[1:]:
    for l in open(f, errors="replace"):
        m = re.match(r"\[(C\d\d)\] tier=thorough (.*)", l)
        if m:
            th.setdefault(m.group(1), []).append(m.group(2).strip())
print("| id | quick (evidence/*.json) | thorough (latest complete pass) |")
print("|----|-------|----------|")
for f in sorted(glob.glob('/verif/evidence/C*.json')):
    d = json.load(open(f)); c = d["coverage"]; pid = f[-8:-5]
    parts = []
    if "worlds" in c: parts.append("%d worlds, %d histories, %d states" % (len(c["worlds"]), c["evaluations"], c["states"]))
    if "e1" in c and isinstance(c["e1"], dict) and "worlds" in c["e1"]:
        parts.append("E1: %d worlds, %d histories" % (len(c["e1"]["worlds"]), c["e1"].get("traces_validated_against_impl", 0)))
    if "scenarios" in c: parts.append("%d scenarios, %d schedules, %d states" % (len(c["scenarios"]), c["schedules"], c["states"]))
    if "programs" in c: parts.append("%d programs, %d observation points" % (c["programs"], c["evaluations"]))
    if pid == "C10": parts.append("%d crash points, %d classes" % (c["evaluations"], c["distinct_nontrivial"]))
    if pid == "C13": parts.append("%d evaluations (E4 targets, placements, histories, degenerate arguments)" % c["evaluations"])
    if pid == "C15": parts.append("%d evaluations (strings, relpath triples, realdirpath, E2 schedules)" % c["evaluations"])
    if pid == "C18" and "e4_records" in c: parts.append("E4 records: %s" % c["e4_records"].get("records", "?"))
    caps = c.get("caps_hit") or []
    print("| %s | %s%s | %s |" % (pid, "; ".join(parts), (" (capped: %s)" % ", ".join(caps)) if caps else "", " / ".join(x[:160] for x in th.get(pid, ["not run in this pass"]))))
