import sys, json, time
sys.path.insert(0, '/verif')
from rv import common, e1, worlds, oracles

def step_check(proj, i, obs):
    out = []
    out += oracles.check_content(proj, obs)
    out += oracles.check_exit(proj, obs)
    out += oracles.check_runset(proj, obs)
    return out

def alphabet(world, h):
    from rv.refmodel import Model
    ops = []
    for t in world.requests:
        ops.append(["ifchange", [t]])
    ops.append(["redo", [world.requests[-1]]])
    # replay model cheaply to know current values
    cur = {s: (None if s in world.absent else a[0]) for s, a in world.sources.items()}
    for op in h:
        if op[0] in ("edit", "create"): cur[op[1]] = op[2]
        if op[0] == "rm" and op[1] in cur: cur[op[1]] = None
    for s, alpha in world.sources.items():
        for v in alpha:
            if v != cur[s]:
                ops.append(["edit", s, v])
        if cur[s] is not None:
            ops.append(["touch", s])
    for t in world.targets:
        ops.append(["rm", t])
    for df, vs in world.rules.items():
        for k in range(len(vs)):
            if len(vs) > 1:
                ops.append(["dovar", df, k])
    return ops

if __name__ == "__main__":
    wname = sys.argv[1]; depth = int(sys.argv[2])
    bindir = common.build_subject(quiet=False)
    W = worlds.curated()
    ex = e1.Explorer(bindir)
    try:
        r = ex.explore(W[wname], alphabet, depth, "dev.try_e1")
    finally:
        ex.close(); common.cleanup_scratch()
    print({k: v for k, v in r.items() if k not in ("violations", "samples")})
    seen = set()
    for h, i, sig, detail, summ in r["violations"]:
        k = json.dumps(sig, sort_keys=True)
        if k in seen: continue
        seen.add(k)
        print("VIOL", sig); print("   hist", h); print("   detail", detail)
        for s in summ: print("     ", s)
