import sys, json, time
sys.path.insert(0, '/verif')
from rv import common, worlds
from rv.e2 import explore

def oracle(scn, res):
    out = []
    if res["verdict"] != "done":
        out.append(({"kind": res["verdict"]}, {"flags": res["flags"]}))
    for n, rc in res["roots"].items():
        if rc != 0:
            out.append(({"kind": "root-rc", "rc": rc}, {"stderr": res["stderr"][n][-500:]}))
    if res["flags"].get("panics"):
        out.append(({"kind": "panic"}, {"p": res["flags"]["panics"]}))
    return out

if __name__ == "__main__":
    bindir = common.build_subject(quiet=False)
    W = worlds.curated()
    scn = {"name": "t", "world": W[sys.argv[1]], "roots": [{"name": "T%d" % i, "argv": a.split()} for i, a in enumerate(sys.argv[3:])]}
    ex = explore.E2Explorer(bindir)
    try:
        r = ex.explore(scn, int(sys.argv[2]), oracle, budget_s=600)
    finally:
        ex.close(); common.cleanup_scratch()
    print({k: v for k, v in r.items() if k not in ("violations", "sample", "sched_errors")})
    print("sched_errors", r["sched_errors"][:3])
    seen = set()
    for devs, sig, detail in r["violations"]:
        k = json.dumps(sig, sort_keys=True)
        if k in seen: continue
        seen.add(k)
        print("VIOL", sig, "devs", devs); print("    ", json.dumps(detail)[:1500])
