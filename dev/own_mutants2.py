"""Second campaign of own deliberate property-breaking changes.

usage: python3 dev/own_mutants2.py [--tests] [--all-checks] [name ...]

Each mutant is (properties, file, old, new).  It is applied to ONE scratch worktree (/tmp/wt/own2, own cargo
target dir through VERIF_REPO), the owning checks' quick tier is run, and the result is appended to
/tmp/wt/own2.results.jsonl.  With --tests, `cargo test` is also run in the worktree (to know whether the
repository's own suite would have caught it).  Nothing touches /repo.
"""
import json, os, subprocess, sys, time
from pathlib import Path
WT = Path("/tmp/wt/own2")
OUT = Path("/tmp/wt/own2.results.jsonl")

M = {
 # ---- deps.rs ----
 "d01-changed-ge-max": (["C02"], "src/deps.rs", "Some(changed_runid) if changed_runid > max_changed =>", "Some(changed_runid) if changed_runid >= max_changed =>"),
 "d04-needtargets-as-dirty-plain": (["C03", "C02"], "src/deps.rs",
    "                Dirtiness::NeedTargets(targets) => {\n                    // our child f2 might be dirty, but it's not sure yet.  It's\n                    // given us a list of targets we have to redo in order to\n                    // be sure.\n                    must_build.extend(targets);\n                }\n                _ => {}\n            }\n        } else {",
    "                Dirtiness::NeedTargets(_targets) => {\n                    return Ok(Dirtiness::Dirty);\n                }\n                _ => {}\n            }\n        } else {"),
 "d05-csum-dirty-dep-plain-dirty": (["C03", "C02"], "src/deps.rs", "                    return Ok(Dirtiness::NeedTargets(vec![f.into_owned()]));\n                }\n                Dirtiness::NeedTargets(targets) => {", "                    return Ok(Dirtiness::Dirty);\n                }\n                Dirtiness::NeedTargets(targets) => {"),
 "d06-parent-bound-without-checked": (["C02", "C01"], "src/deps.rs", "                        cmp::max(\n                            f.changed_runid\n                                .expect(\"changed_runid missing on modified file\"),\n                            f.checked_runid.unwrap_or(0),\n                        ),", "                        f.changed_runid\n                            .expect(\"changed_runid missing on modified file\"),"),
 "d08-no-recursion-guard": (["C12", "C17"], "src/deps.rs", "    if already_checked.contains(&f.id()) {\n        return Err(RedoErrorKind::CyclicDependency.into());\n    }", "    if false && already_checked.contains(&f.id()) {\n        return Err(RedoErrorKind::CyclicDependency.into());\n    }"),
 "d09-created-dep-ignored": (["C14", "C13"], "src/deps.rs", "                if ptx.state().env().base().join(f2.name()).exists() {", "                if false && ptx.state().env().base().join(f2.name()).exists() {"),
 "d10-mtime-only-newer": (["C01"], "src/deps.rs", "            if oldstamp != &newstamp {\n                if newstamp == Stamp::MISSING {", "            if oldstamp != &newstamp && (newstamp == Stamp::MISSING || format!(\"{:?}\", newstamp) > format!(\"{:?}\", oldstamp)) {\n                if newstamp == Stamp::MISSING {"),
 "d11-missing-csum-target-dirty-only": (["C03"], "src/deps.rs", "                return Ok(if !f.checksum().is_empty() {\n                    Dirtiness::NeedTargets(vec![f.into_owned()])", "                return Ok(if false && !f.checksum().is_empty() {\n                    Dirtiness::NeedTargets(vec![f.into_owned()])"),
 "d12-forget-generated-not-saved": (["C11", "C17"], "src/deps.rs", "                        f.is_generated = false;\n                        f.failed_runid = Some(0);\n                        f.save(ptx)?;\n                        f.refresh(ptx)?;", "                        f.is_generated = false;\n                        f.failed_runid = Some(0);"),
 # ---- builder.rs ----
 "b02-override-not-static": (["C11"], "src/builder.rs", "            && (sf.is_override || !sf.is_generated())\n        {", "            && (!sf.is_generated())\n        {"),
 "b03-no-zap-deps1": (["C02"], "src/builder.rs", "        sf.zap_deps1(&mut ptx)?;\n", ""),
 "b04-created-directly-unnoticed": (["C04"], "src/builder.rs", "                        None => true,\n                    }\n            }\n            None => false,\n        };\n        if modified {", "                        None => false,\n                    }\n            }\n            None => false,\n        };\n        if modified {"),
 "b05-tmp-left-on-failure": (["C04"], "src/builder.rs", "            helpers::unlink(tmp_name).expect(\"failed to remove temporary output file\");\n", ""),
 "b06-no-output-keeps-old": (["C04"], "src/builder.rs", "                match helpers::unlink(t) {\n                    Ok(_)\n                    | Err(Errno::EISDIR)\n                    | Err(Errno::EPERM) => {}\n                    e @ Err(_) => e.expect(\"failed to remove target file\"),\n                }", "                let _ = Errno::EISDIR;"),
 "b08-checksum-dropped-after-change": (["C03", "C02"], "src/builder.rs", "            if sf.is_checked(ptx.state().env()) || sf.is_changed(ptx.state().env()) {", "            if sf.is_checked(ptx.state().env()) {"),
 "b10-continue-after-failure": (["C05"], "src/builder.rs", "                if errored && !ps_ref.borrow().env().keep_going {\n                    break;\n                }\n                // TODO(soon): state.check_sane.", "                if false && errored && !ps_ref.borrow().env().keep_going {\n                    break;\n                }\n                // TODO(soon): state.check_sane."),
 "b11-keepgoing-inverted": (["C05"], "src/builder.rs", "                if errored && !ps_ref.borrow().env().keep_going {\n                    break;\n                }\n                // TODO(soon): state.check_sane.", "                if errored && ps_ref.borrow().env().keep_going {\n                    break;\n                }\n                // TODO(soon): state.check_sane."),
 "b12-no-refresh-after-lock": (["C07", "C06"], "src/builder.rs", "                        f.refresh(&mut ptx)?;\n                        let job = match (BuildJob {", "                        let job = match (BuildJob {"),
 "b14-no-lock-check-while-waiting": (["C12"], "src/builder.rs", "                    lock.check()?;\n", ""),
 "b15-no-drain-before-lock-wait": (["C09"], "src/builder.rs", "            while job_futures.as_mut().next().await.is_some() {}\n", ""),
 "b16-release-mine-unconditional": (["C09"], "src/builder.rs", "                    if server.has_token() {\n                        // wait_all() may already have left us without any token.\n                        server.release_mine()?;\n                    }", "                    server.release_mine()?;"),
 "b17-no-token-before-free-lock": (["C08", "C09"], "src/builder.rs", "                server.ensure_token_or_cheat(t.as_str(), &mut cheat).await?;\n                lock.try_lock()?;\n                while !lock.is_owned() {", "                lock.try_lock()?;\n                while !lock.is_owned() {"),
 "b19-no-cycles-add-oob": (["C12"], "src/builder.rs", "            cycles::add(fid.to_string());\n", ""),
 "b20-no-cycles-add-job": (["C12"], "src/builder.rs", "            cycles::add(lock.file_id().to_string());\n", ""),
 "b21-lock-dropped-before-record": (["C06"], "src/builder.rs", "            let _lock = lock; // ensure we hold the lock until after state has been recorded\n            let mut rv = job.await;\n", "            let mut rv = job.await;\n            drop(lock);\n"),
 "b25-staging-not-committed": (["C10"], "src/builder.rs", "                .and_then(|_| ptx.checkpoint().map_err(RedoError::opaque_error));", "                .and_then(|_| Ok(()));"),
 "b26-failed-locked-target-built-anyway": (["C05", "C07"], "src/builder.rs", "                    if file.is_failed(ptx.state().env()) {\n                        result.set", "                    if false && file.is_failed(ptx.state().env()) {\n                        result.set"),
 "b27-error-abandons-jobs": (["C06", "C08"], "src/builder.rs", "    if outcome.is_err() {\n        // An error above", "    if false && outcome.is_err() {\n        // An error above"),
 "b28-stdout-and-tmp-accepted": (["C04"], "src/builder.rs", "        } else if st2.is_some() && st1.size() > 0 {", "        } else if false && st2.is_some() && st1.size() > 0 {"),
 "b29-rename-before-staging": (["C10"], "src/builder.rs", "            if staged.is_err() {\n                // leave the target alone\n            } else if st2.is_some() {", "            if false {\n            } else if st2.is_some() && staged.is_ok() {"),
 "b30-dofile-not-static-stamped": (["C02", "C01"], "src/builder.rs", "        dof.set_static(ptx.state().env())?;\n        dof.save(&mut ptx)?;\n", ""),
 # ---- state.rs ----
 "s01-is-checked-gt": (["C07", "C02"], "src/state.rs", "            Some(checked_runid) => checked_runid != 0 && checked_runid >= v.runid.unwrap(),", "            Some(checked_runid) => checked_runid != 0 && checked_runid > v.runid.unwrap(),"),
 "s02-is-changed-gt": (["C03", "C07", "C14"], "src/state.rs", "            Some(changed_runid) => changed_runid != 0 && changed_runid >= v.runid.unwrap(),", "            Some(changed_runid) => changed_runid != 0 && changed_runid > v.runid.unwrap(),"),
 "s03-is-failed-gt": (["C05"], "src/state.rs", "            (Some(failed_runid), Some(vrunid)) => failed_runid != 0 && failed_runid >= vrunid,", "            (Some(failed_runid), Some(vrunid)) => failed_runid != 0 && failed_runid > vrunid,"),
 "s05-changed-keeps-failed": (["C02", "C05"], "src/state.rs", "        self.changed_runid = v.runid;\n        self.failed_runid = None;\n        self.is_override = false;", "        self.changed_runid = v.runid;\n        self.is_override = false;"),
 "s07-static-keeps-generated": (["C11", "C17"], "src/state.rs", "        self.is_override = false;\n        self.is_generated = false;\n        Ok(())", "        self.is_override = false;\n        Ok(())"),
 "s08-override-keeps-deps": (["C11", "C02"], "src/state.rs", "        if self.is_override || !self.is_generated {\n            return Ok(Vec::new());", "        if !self.is_generated {\n            return Ok(Vec::new());"),
 "s09-add-dep-insert-or-ignore": (["C01", "C02"], "src/state.rs", "            \"insert or replace into Deps (target, mode, source, delete_me) values (?,?,?,?)\",", "            \"insert or ignore into Deps (target, mode, source, delete_me) values (?,?,?,?)\","),
 "s11-source-ignores-override": (["C17"], "src/state.rs", "            && (!self.is_failed(v) || !newstamp.is_missing())\n            && !self.is_override\n", "            && (!self.is_failed(v) || !newstamp.is_missing())\n"),
 "s14-set-failed-keeps-generated-when-missing": (["C11", "C17", "C05"], "src/state.rs", "        self.is_generated = !self.stamp.as_ref().map(|s| s.is_missing()).unwrap_or(false);", "        self.is_generated = true;"),
 "s15-update-stamp-never-changed": (["C01"], "src/state.rs", "            self.stamp = Some(newstamp);\n            self.set_changed(v);\n        }\n        Ok(())", "            self.stamp = Some(newstamp);\n        }\n        Ok(())"),
 "s16-stamp-mtime-whole-seconds": (["C01", "C02"], "src/state.rs", "            \"{:.6}-{}-{}-{}-{}-{}\",", "            \"{:.0}-{}-{}-{}-{}-{}\","),
 "s17-stamp-without-inode": (["C01", "C11"], "src/state.rs", "            metadata.len(),\n            metadata.ino(),", "            metadata.len(),\n            0,"),
 "s18-stamp-without-size": (["C01", "C11"], "src/state.rs", "            mtime,\n            metadata.len(),", "            mtime,\n            0,"),
 # ---- paths.rs ----
 "p01-no-created-deps-for-skipped-candidates": (["C13", "C02"], "src/paths.rs", "            f.add_dep(ptx, DepMode::Created, &do_path)?;", "            let _ = DepMode::Created;"),
 "p02-no-dep-on-dofile": (["C02", "C01", "C13"], "src/paths.rs", "            f.add_dep(ptx, DepMode::Modified, &do_path)?;\n            return Ok(Some(do_file));", "            return Ok(Some(do_file));"),
 # ---- commands ----
 "c01-ifcreate-accepts-existing": (["C14"], "src/bin/redo/ifcreate.rs", "        if Path::new(&t).exists() {", "        if false && Path::new(&t).exists() {"),
 "c02-stamp-unchanged-not-checked": (["C03"], "src/bin/redo/stamp.rs", "        f.set_checked(ptx.state().env());", "        let _ = &f;"),
 "c03-stamp-always-changed": (["C03"], "src/bin/redo/stamp.rs", "    let changed = csum != f.checksum();", "    let changed = true || csum != f.checksum();"),
 "c04-unlocked-skips-second-phase-on-success": (["C03", "C01"], "src/bin/redo/unlocked.rs", "        .env(ENV_UNLOCKED, \"1\")\n        .spawn()?", "        .env(ENV_UNLOCKED, \"\")\n        .spawn()?"),
 "c05-ood-uses-persistent-checked": (["C17"], "src/bin/redo/ood.rs", "        .is_checked(|f, _| cache.borrow().contains(&f.id()))\n", ""),
 "c06-targets-lists-sources-too": (["C17"], "src/bin/redo/targets.rs", "        if f.is_target(&env2)? {", "        if f.is_generated() || f.is_target(&env2)? {"),
 "c07-always-dep-not-recorded": (["C14"], "src/bin/redo/always.rs", "    f.add_dep(&mut ptx, DepMode::Modified, redo::always_filename())?;\n", ""),
 # ---- jobserver.rs ----
 "j01-read-token-while-holding": (["C09", "C08"], "src/jobserver.rs", "                            if state.my_tokens >= 1 {\n                                // A child that exited", "                            if false && state.my_tokens >= 1 {\n                                // A child that exited"),
 "j02-cheat-byte-not-eaten": (["C08"], "src/jobserver.rs", "                            Ok(Some(1)) => {\n                                // someone exited with _cheats > 0, so we need to compensate\n                                // by *not* re-creating a token now.\n                                debug_jobserver!(\"EAT cheatfd {:?}\", &b);\n                            }", "                            Ok(Some(1)) => {\n                                state.create_tokens(1);\n                            }"),
 "j03-release-except-mine-off-by-one": (["C08"], "src/jobserver.rs", "        self.release(token_fds, self.my_tokens - 1)", "        self.release(token_fds, if self.my_tokens > 2 { self.my_tokens - 2 } else { self.my_tokens - 1 })"),
 "j04-force-return-forgets-running": (["C08"], "src/jobserver.rs", "        state.create_tokens(n as i32);\n        if state.has_token() {", "        if state.has_token() {"),
 "j05-waitall-keeps-extra-tokens": (["C08"], "src/jobserver.rs", "        while self.state.borrow().my_tokens >= 2 {", "        while self.state.borrow().my_tokens >= 3 {"),
 "j06-cheat-not-counted": (["C08"], "src/jobserver.rs", "                        state.my_tokens += n;\n                        state.cheats += n;", "                        state.my_tokens += n;"),
}


def sh(cmd, **kw):
    return subprocess.run(cmd, stdout=subprocess.PIPE, stderr=subprocess.STDOUT, text=True, **kw)


def main():
    args = sys.argv[1:]
    tests = "--tests" in args
    only = [a for a in args if not a.startswith("--")]
    WT.parent.mkdir(parents=True, exist_ok=True)
    if not WT.exists():
        print(sh(["git", "-C", "/repo", "worktree", "add", "-q", "--detach", str(WT), "HEAD"]).stdout)
    evd = Path("/tmp/wt/own2.ev"); evd.mkdir(exist_ok=True)
    for name, (props, f, old, new) in M.items():
        if only and name not in only:
            continue
        sh(["git", "-C", str(WT), "checkout", "--", "."])
        p = WT / f
        s = p.read_text()
        if s.count(old) != 1:
            print(name, "PATTERN-NOT-FOUND count=%d" % s.count(old), flush=True)
            continue
        p.write_text(s.replace(old, new))
        rec = {"name": name, "props": props, "checks": {}}
        for prop in props:
            t0 = time.time()
            r = sh(["/verif/bin/check", prop, "--tier", "quick"], env=dict(os.environ, VERIF_REPO=str(WT), VERIF_EVIDENCE_DIR=str(evd)), cwd="/verif")
            viol = [l for l in r.stdout.split("\n") if l.startswith("VIOLATION")]
            what = r.stdout.split("what:")[1].split("\n")[0][:160] if "what:" in r.stdout else r.stdout[-160:].replace("\n", " ")
            rec["checks"][prop] = {"rc": r.returncode, "detected": bool(viol), "wall": round(time.time() - t0), "what": what}
            print(name, prop, "rc=%d" % r.returncode, "DETECTED" if viol else "MISSED", "%.0fs" % (time.time() - t0), what, flush=True)
            if viol:
                break
        if tests and not any(c["detected"] for c in rec["checks"].values()):
            try:
                r = subprocess.run(["setsid", "cargo", "test", "--workspace", "--no-fail-fast", "--offline"], cwd=str(WT), stdout=subprocess.PIPE,
                                   stderr=subprocess.STDOUT, text=True, env=dict(os.environ, CARGO_NET_OFFLINE="true"), timeout=400)
                rec["tests_fail"] = "test result: FAILED" in r.stdout or r.returncode != 0
            except subprocess.TimeoutExpired:
                rec["tests_fail"] = True   # the suite hangs: it notices
                os.system("ps -eo pid,args | grep '[w]t/own2/target' | awk '{print $1}' | xargs -r kill -9")
            print(name, "baseline tests:", "FAIL (suite catches it)" if rec["tests_fail"] else "pass", flush=True)
        with OUT.open("a") as fh:
            fh.write(json.dumps(rec) + "\n")
    sh(["git", "-C", str(WT), "checkout", "--", "."])


main()
