import sys, json, time
sys.path.insert(0, '/verif')
from rv import common, worlds
from rv.e2 import ns, execn
if __name__ == "__main__":
    bindir = common.build_subject(quiet=False)
    W = worlds.curated()
    scn = {"name": "t", "world": W[sys.argv[1]], "log_mode": True, "roots": [{"name": "T0", "argv": sys.argv[2].split()}]}
    t0 = time.time()
    res = ns.run_in_ns(execn.execute, scn, (), str(bindir), str(common.scratch_root()))
    print("wall %.2f" % (time.time() - t0), res["verdict"], res.get("error"), "steps", len(res["steps"]), "roots", res["roots"])
    for s in res["steps"]:
        print(s["i"], s["lid"], s["kind"], s["label"], s["detail"][:70], "| enabled:", [e[0]+":"+e[1] for e in s["enabled"]])
    print("trace", res["trace"])
    for k, v in res["stderr"].items(): print("stderr", k, v[-1500:])
    print(res["flags"])
    common.cleanup_scratch()
