#!/bin/sh
# dev/seed2_take.sh <Cxx> <seed-id> "<needs>"  -- confirm a round-2 candidate in /tmp/seed2/<Cxx>, store, run owning check
set -x
P=$1; SID=$2; NEEDS=$3
cd /verif
bin/seedconfirm /tmp/seed2/$P "$SID" $P "$NEEDS" > /dev/shm/seed2-$P.confirm.log 2>&1 || { echo CONFIRM-FAILED; tail -20 /dev/shm/seed2-$P.confirm.log; exit 1; }
tail -5 /dev/shm/seed2-$P.confirm.log
bin/seedrun "$SID" 2>&1 | tee /dev/shm/seed2-$P.run.log | cut -c1-400
