"""dev/try_scn.py <PROP> <scenario-name> [bound] -- explore one scenario of a property's plan and print a summary"""
import sys, json, time
sys.path.insert(0, '/verif')
import importlib
from rv import common, e2prop
from rv.e2 import explore

if __name__ == "__main__":
    mod = importlib.import_module("rv.props." + sys.argv[1].lower())
    plan = {s["name"]: (s, b) for s, b in mod.scenarios("thorough")}
    scn, b = plan[sys.argv[2]]
    if len(sys.argv) > 3:
        b = int(sys.argv[3])
    bindir = common.build_subject()
    ex = explore.E2Explorer(bindir)
    def orc(scn, res):
        return e2prop.base_oracle(scn, res) + mod.oracle(scn, res)
    t0 = time.time()
    r = ex.explore(scn, b, orc)
    ex.close()
    print("bound", b, "schedules", r["schedules"], "by_bound", r["by_bound"], "states", r["states"], "outcomes", r["outcomes"],
          "verdicts", r["verdicts"], "errors", r["sched_errors"][:3], "wall %.1f" % (time.time() - t0))
    seen = set()
    for devs, sig, detail in r["violations"]:
        k = json.dumps(sig, sort_keys=True)
        if k in seen: continue
        seen.add(k)
        print("VIOL", devs, sig, str(detail)[:600])
    common.cleanup_scratch()
