"""dev/show_devs.py <PROP> <scenario> '<devs json>' -- run one schedule given by its deviations and print the steps"""
import sys, json
sys.path.insert(0, '/verif')
from rv import common
from rv.e2 import explore
import importlib
if __name__ == "__main__":
    bindir = common.build_subject()
    scn = {s["name"]: s for s, _ in importlib.import_module("rv.props." + sys.argv[1].lower()).scenarios("thorough")}[sys.argv[2]]
    devs = tuple((d[0], d[1], tuple(d[2])) for d in json.loads(sys.argv[3]))
    ex = explore.E2Explorer(bindir, workers=1)
    _, r = explore._run(scn, devs, ex.bindir, ex.scratch)
    ex.close(); common.cleanup_scratch()
    for s in r["steps"]:
        print(s["i"], s["lid"], s["kind"], s["label"], s["detail"][:70], "|", [e[0]+":"+e[1] for e in s["enabled"]])
    print(r["verdict"], r["roots"], r["trace"], r.get("jobserver"), r.get("divergence"))
    for k, v in r["stderr"].items(): print(k, v[-600:])
