import sys, json, time
sys.path.insert(0, '/verif')
from rv import common
from rv.e2 import explore, scenarios as SC
from rv.props import c09
if __name__ == "__main__":
    bindir = common.build_subject()
    name = sys.argv[1]; n = int(sys.argv[2])
    scn = {s["name"]: s for s, _ in c09.scenarios("thorough")}[name]
    ex = explore.E2Explorer(bindir, workers=16)
    _, base = explore._run(scn, (), ex.bindir, ex.scratch)
    kids = explore.children(base, ())
    print("base steps", len(base["steps"]), "children", len(kids))
    runs = list(ex.pool.map(explore._run, [scn]*len(kids), [k[0] for k in kids], [ex.bindir]*len(kids), [ex.scratch]*len(kids), [k[1] for k in kids]))
    ex.close(); common.cleanup_scratch()
    b = [(s["lid"], s["kind"], s["label"]) for s in base["steps"]]
    for devs, r in runs:
        if r.get("divergence"):
            cur = [(s["lid"], s["kind"], s["label"]) for s in r["steps"]]
            for i, (x, y) in enumerate(zip(b, cur)):
                if x != y:
                    print("dev", devs, "first diff at", i, "base", x, "replay", y)
                    print("   base enabled", base["steps"][i]["enabled"]); print("   repl enabled", r["steps"][i]["enabled"])
                    for j in range(max(0, i-3), i+1): print("     base", j, b[j], base["steps"][j]["detail"][:80], "| repl", cur[j], r["steps"][j]["detail"][:80])
                    break
