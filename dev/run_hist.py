import sys, json
sys.path.insert(0, '/verif')
from rv import common, worlds, oracles
from rv.e1 import replay_history
def chk(proj,i,obs):
    return oracles.check_content(proj,obs)+oracles.check_runset(proj,obs)+oracles.check_exit(proj,obs)+oracles.check_kill(proj,obs)
if __name__ == "__main__":
    W = worlds.curated()
    bindir = common.build_subject()
    h = json.loads(sys.argv[2])
    key, viols, summ = replay_history(W[sys.argv[1]], h, chk, bindir=bindir)
    for s in summ: print(s["op"], s["rc"], "ran", s["ran"], "pred", s["pred"], s["err"][-150:])
    for v in viols: print("VIOL", v)
    common.cleanup_scratch()
