#!/bin/sh
# dev/seed_take.sh <round-dir> <Cxx> <seed-id> "<needs>" [also-check ...] -- confirm a candidate left in <round-dir>/<Cxx>, store it, run the owning check
D=$1; P=$2; SID=$3; NEEDS=$4
cd /verif
bin/seedconfirm $D/$P "$SID" $P "$NEEDS" > /dev/shm/seed-$P.confirm.log 2>&1 || { echo "CONFIRM-FAILED $SID"; tail -20 /dev/shm/seed-$P.confirm.log; exit 1; }
tail -3 /dev/shm/seed-$P.confirm.log
bin/seedrun "$SID" 2>&1 | tee /dev/shm/seed-$P.run.log | cut -c1-400
