import sys
sys.path.insert(0, '/verif')
from rv import common
from rv.e2 import explore
from rv.props import c18
if __name__ == "__main__":
    bindir = common.build_subject()
    scn = c18.scenarios("thorough")[int(sys.argv[1])][0]
    ex = explore.E2Explorer(bindir, workers=1)
    r = ex.run_one(scn, ())
    ex.close(); common.cleanup_scratch()
    live = r["stderr"]["T0"]
    print("LIVE:\n" + "\n".join(l[:100] for l in live.split("\n")))
    pp = c18.parse_pretty(live)
    print([(c, l[:14]) for c, l in pp])
    for p in r["post"]:
        print("POST", p["argv"], p["rc"]); print("\n".join(l[:100] for l in (p["out"]+p["err"]).split("\n"))[:3000])
    print(c18.oracle(scn, r))
