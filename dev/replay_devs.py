import sys, json
sys.path.insert(0, '/verif')
from rv import common
from rv.e2 import explore
import importlib
if __name__ == "__main__":
    mod = importlib.import_module("rv.props." + sys.argv[1])
    name = sys.argv[2]; devs = eval(sys.argv[3])
    scn = {s["name"]: s for s, _ in mod.scenarios("thorough")}[name]
    bindir = common.build_subject()
    ex = explore.E2Explorer(bindir, workers=1)
    r = ex.run_one(scn, devs)
    ex.close(); common.cleanup_scratch()
    for s in r["steps"]:
        print(s["i"], s["lid"], s["kind"], s["label"], s["detail"][:60], "|", [e[0]+":"+e[1]+":"+e[2] for e in s["enabled"]])
    print(r["verdict"], r["roots"], r["flags"], r.get("divergence"))
    for k, v in r["stderr"].items(): print(k, v[-600:])
