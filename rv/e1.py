"""E1 -- history explorer: explicit-state BFS over real transitions.

State      = a scratch project directory (sources, .do scripts, targets, .redo/)
Transition = one operation executed for real (a redo command or a user action)
A history is replayed from an empty directory; states are deduplicated by a
canonical key (DESIGN.md, E1 and appendix C).
"""
import copy
import json
import os
import shutil
import time
from concurrent.futures import ProcessPoolExecutor
from pathlib import Path

from . import canon
from .common import MachineryError, base_env, run_cmd, scratch_root
from .refmodel import FAIL, Model, RefBuild
from .worlds import DOFILES_ABSENT, World, script_text

T0 = 1_600_000_000
MAX_WATCHDOGS = 6     # per exploration: after that many hung commands the rest of the plan is not executed


class Project:
    def __init__(self, world: World, bindir: Path, root: Path, dofiles_absent=None, log_mode=False, extra_env=None,
                 gates=False):
        self.gates = gates
        self.w = world
        self.bindir = Path(bindir)
        self.root = Path(root)
        self.p = self.root / "p"
        self.home = self.root / "home"
        self.trace = self.root / "trace"
        self.p.mkdir(parents=True)
        self.home.mkdir()
        self.trace.write_text("")
        self.clock = 0
        self.trace_pos = 0
        self.log_mode = log_mode
        if dofiles_absent is None:
            dofiles_absent = DOFILES_ABSENT.get(world.name, [])
        self.model = Model(world, dofiles_absent)
        self.env = base_env(self.bindir, self.home)
        self.env["RV_TRACE"] = str(self.trace)
        self.env["RV_ROOT"] = os.path.realpath(str(self.p))    # scripts name their target relative to the project root in traces
        if not log_mode:
            self.env["REDO_LOG"] = "0"
        if extra_env:
            self.env.update(extra_env)
        for s, alpha in world.sources.items():
            if s not in world.absent:
                self._write(s, alpha[0])
        for df, variants in world.rules.items():
            if df not in dofiles_absent:
                self._write(df, script_text(variants[0], 0, df, gates=self.gates))
        if any(c == "udovar" for vs in world.rules.values() for sp in vs for c, _ in sp.seq):
            # scripts that play the user replacing a rule's script in mid-run copy the new text from here
            vd = self.root / "variants"
            vd.mkdir()
            self.env["RV_VARIANTS"] = str(vd)
            for df, variants in world.rules.items():
                for k, sp in enumerate(variants):
                    (vd / ("%s.%d" % (df, k))).write_text(script_text(sp, k, df, gates=self.gates))
        for name, text in getattr(world, "symlinks", {}).items():
            (self.p / name).parent.mkdir(parents=True, exist_ok=True)
            os.symlink(text, self.p / name)

    # -- user-side file operations (explicit, strictly increasing mtimes) ------
    def _tick(self):
        """mtime for the next user action: all distinct, a millisecond apart (so an implementation that rounds mtimes to
        seconds cannot tell two edits apart by time), and alternately later and EARLIER than everything before (a file
        restored from an archive, `mv` of an older file, a clock that was set back): redo must react to any difference"""
        self.clock += 1
        k = self.clock
        return T0 + (k if k % 2 else -k) * 0.001

    def _write(self, name, text, replace=False):
        path = self.p / name
        path.parent.mkdir(parents=True, exist_ok=True)
        t = self._tick()
        if text == "<dir>":
            # the user makes the name a directory of theirs
            if path.is_symlink() or path.is_file():
                os.unlink(path)
            path.mkdir(exist_ok=True)
            os.utime(path, (t, t))
            return
        if path.is_dir() and not path.is_symlink():
            os.rmdir(path)
        if not path.is_symlink() and path.is_file() and os.stat(path).st_nlink > 1:
            replace = True      # a file with several names is edited by replacement (the model knows nothing of aliases)
        if path.is_symlink() and not replace:
            # a name that is a (possibly dangling) symbolic link of the world: the user edits the file it points to
            with open(path, "w") as f:
                f.write(text)
            os.utime(path, (t, t))
        elif replace or not path.exists():
            tmp = path.with_name(path.name + ".rvnew")
            tmp.write_text(text)
            os.utime(tmp, (t, t))
            os.replace(tmp, path)
        elif self.clock % 3 == 0:
            # every third edit of an existing file: a NEW file with the OLD file's mtime is moved into place (cp -p of
            # another version, then mv): when the new content has the old length, only the inode tells the two apart
            old_m = path.stat().st_mtime
            tmp = path.with_name(path.name + ".rvnew")
            tmp.write_text(text)
            os.utime(tmp, (old_m, old_m))
            os.replace(tmp, path)
        else:
            with open(path, "w") as f:
                f.write(text)
            os.utime(path, (t, t))

    def _touch(self, name):
        t = self._tick()
        os.utime(self.p / name, (t, t))

    # -- observations ---------------------------------------------------------
    def read_trace(self):
        data = self.trace.read_text()
        new = data[self.trace_pos:]
        self.trace_pos = len(data)
        return [l for l in new.split("\n") if l]

    def snapshot(self):
        out = {}
        for path in sorted(self.p.rglob("*")):
            rel = str(path.relative_to(self.p))
            if rel.startswith(".redo"):
                continue
            if path.is_symlink():
                out[rel] = ("L:" + os.readlink(path), os.lstat(path).st_ino)
            elif path.is_file():
                try:
                    out[rel] = (path.read_text(errors="replace"), path.stat().st_ino)
                except FileNotFoundError:
                    pass
        return out

    def redo(self, argv, opts=None, cwd=None, timeout=60):
        opts = opts or {}
        env = dict(self.env)
        if opts.get("k"):
            env["REDO_KEEP_GOING"] = "1"
        if opts.get("env"):
            env.update(opts["env"])
        rc, out, err = run_cmd(argv, cwd or self.p, env, timeout=timeout)
        return rc, out, err

    # -- one operation ----------------------------------------------------------
    def op(self, op):
        """Apply op to the real project and to the model. Returns an observation dict."""
        kind = op[0]
        m = self.model
        obs = {"op": op}
        if kind == "kbuild":
            # ["kbuild", [targets], victim, position]: redo-ifchange of the targets, interrupted -- the whole process
            # tree is SIGKILLed -- when victim's script reaches the position (if it gets there at all)
            targets, victim, pos = list(op[1]), op[2], str(op[3])
            before = self.snapshot()
            mb = copy.deepcopy(m)
            rc, out, err = self.redo(["redo-ifchange"] + targets, {"env": {"RV_KILL": "%s:%s" % (victim, pos)}})
            trace = self.read_trace()
            pred = RefBuild(m).run("ifchange", targets, observed=executed(trace), kill=(victim, pos))
            obs.update(rc=rc, out=out, err=err, trace=trace, pred=pred, before=before, after=self.snapshot(),
                       model_before=mb, killed=(rc == -9))
            if not pred["killed"] and rc != -9:
                obs["op"] = ["ifchange", targets]      # the kill point was not reached: an ordinary build, judged as one
            elif pred["killed"] != (rc == -9):
                obs["kill_mismatch"] = True
        elif kind in ("ifchange", "redo"):
            targets = list(op[1])
            opts = op[2] if len(op) > 2 else {}
            argv = ["redo-ifchange"] if kind == "ifchange" else ["redo"]
            if kind == "redo":
                if not self.log_mode:
                    argv.append("--no-log")
                if opts.get("k"):
                    argv.append("-k")
                if opts.get("j"):
                    argv.append("-j%d" % opts["j"])
            elif opts.get("j"):
                raise MachineryError("redo-ifchange takes no -j")
            argv += targets
            before = self.snapshot()
            mb = copy.deepcopy(m)
            rc, out, err = self.redo(argv, opts)
            trace = self.read_trace()
            pred = RefBuild(m).run(kind, targets, keep_going=bool(opts.get("k")), observed=executed(trace))
            obs.update(rc=rc, out=out, err=err, trace=trace, pred=pred, before=before,
                       after=self.snapshot(), model_before=mb)
        elif kind in ("ood", "targets", "sources"):
            rc, out, err = self.redo(["redo-" + kind])
            obs.update(rc=rc, out=out, err=err, trace=self.read_trace(), listing=sorted(l for l in out.split("\n") if l))
        elif kind in ("edit", "create", "uwrite"):
            self._write(op[1], op[2])
            m.user_write(op[1], op[2])
        elif kind == "uold":
            # the user puts an OLDER file of the same size in place (restored backup, cp -p, mv, tar x): new inode,
            # mtime earlier than anything seen so far
            path = self.p / op[1]
            tmp = path.with_name(path.name + ".rvold")
            tmp.write_text(op[2])
            self.clock += 1
            t = T0 - 100000 - self.clock
            os.utime(tmp, (t, t))
            os.replace(tmp, path)
            m.user_write(op[1], op[2])
        elif kind == "uhard":
            # the user puts one of their own files in the target's place as a HARD LINK (ln -f mine out): the file has two
            # names from then on
            path = self.p / op[1]
            try:
                if not path.is_symlink() and os.stat(path).st_ino == os.stat(self.p / op[2]).st_ino:
                    return obs             # already that very file under this name: linking it there again changes nothing
            except FileNotFoundError:
                pass
            tmp = path.with_name(path.name + ".rvhard")
            if tmp.exists():
                os.unlink(tmp)
            os.link(self.p / op[2], tmp)
            os.replace(tmp, path)
            if tmp.exists():          # (rename of two names of one file does nothing)
                os.unlink(tmp)
            m.user_write(op[1], m.content.get(op[2]) or "")
        elif kind == "ulinkdir":
            # the user makes the name a symbolic link to one of their directories
            path = self.p / op[1]
            if path.is_symlink() or path.exists():
                os.unlink(path)
            os.symlink(op[2], path)
            m.user_write(op[1], "L:" + op[2])
        elif kind == "udirfile":
            # the user moves their directory out of the way and puts a regular file of theirs under the name
            path = self.p / op[1]
            if path.is_dir() and not path.is_symlink():
                dst = path.with_name(path.name + ".saved")
                if dst.exists():
                    shutil.rmtree(dst)
                os.rename(path, dst)
            for n in [n for n in list(m.content) if n.startswith(op[1] + "/")]:
                m.user_rm(n)
            self._write(op[1], op[2], replace=True)
            m.user_write(op[1], op[2])
        elif kind == "ureplace":
            self._write(op[1], op[2], replace=True)
            m.user_write(op[1], op[2])
        elif kind == "touch":
            self._touch(op[1])
            m.user_touch(op[1])
        elif kind == "rm":
            try:
                victim = self.p / op[1]
                if victim.is_symlink() and op[1] in getattr(self.w, "symlinks", {}):
                    victim = Path(os.path.realpath(victim))     # the link is part of the world; the file behind it goes
                if victim.is_dir() and not victim.is_symlink():
                    os.rmdir(victim)
                else:
                    os.unlink(victim)
            except FileNotFoundError:
                pass
            m.user_rm(op[1])
        elif kind == "dovar":
            df, k = op[1], op[2]
            self._write(df, script_text(self.w.rules[df][k], k, df, gates=self.gates))
            m.set_variant(df, k)
        elif kind == "dorm":
            try:
                os.unlink(self.p / op[1])
            except FileNotFoundError:
                pass
            m.user_rm(op[1])
        else:
            raise MachineryError("unknown op %r" % (op,))
        return obs

    # -- canonical key ----------------------------------------------------------
    def key(self):
        files = tuple(sorted((n, c) for n, (c, _ino) in self.snapshot().items() if not n.endswith(".do")))
        m = self.model
        mk = []
        for X in sorted(set(m.built) | set(m.failed)):
            mk.append((X, bool(m.built.get(X)), bool(m.failed.get(X)), m.owner.get(X), m.kind_at_build.get(X),
                       tuple(sorted((d, mode, m.ver.get(d, 0) == sv) for d, (mode, sv) in m.seen.get(X, {}).items()))))
        dov = tuple(sorted(m.variant.items()))
        dirs = sorted(n for n in self.w.sources if (self.p / n).is_dir() and not (self.p / n).is_symlink())   # sources the user turned into directories
        return json.dumps([files, canon.db_key(self.p), mk, dov, sorted(m.interrupted)] + ([dirs] if dirs else []) +
                          ([["tolerated"] + sorted(m.tolerated)] if m.tolerated else []) +
                          ([["fwr"] + sorted(m.failed_while_removed)] if getattr(m, "failed_while_removed", None) else []),
                          sort_keys=True, default=str)


# ---------------------------------------------------------------------------
# parsing the execution trace

def executed(trace):
    """names whose script began (B records), as a list with multiplicity"""
    return [l.split(" ")[1] for l in trace if l.startswith("B ")]


def ended(trace):
    return [l.split(" ")[1] for l in trace if l.startswith("E ")]


def _first_difference(a, b):
    """where two (canonical key, observation summary) pairs of one history differ -- for the machinery-error message"""
    out = []
    for name, x, y in (("key", a[0], b[0]), ("observations", a[1], b[1])):
        if x == y:
            continue
        try:
            jx, jy = json.loads(x), json.loads(y)
        except ValueError:
            out.append((name, str(x)[:200], str(y)[:200]))
            continue
        def walk(u, v, path):
            if type(u) != type(v) or not isinstance(u, (list, dict)):
                if u != v:
                    out.append((name + path, json.dumps(u)[:300], json.dumps(v)[:300]))
                return
            if isinstance(u, dict):
                for k in sorted(set(u) | set(v)):
                    walk(u.get(k), v.get(k), path + "/" + str(k))
            else:
                if len(u) != len(v):
                    out.append((name + path, json.dumps(u)[:300], json.dumps(v)[:300]))
                    return
                for i, (p, q) in enumerate(zip(u, v)):
                    walk(p, q, path + "/%d" % i)
        walk(jx, jy, "")
    return out[:4]


# ---------------------------------------------------------------------------
# explorer

_W = {}


def _init_worker(bindir, root=None):
    _W["bindir"] = bindir
    if root:
        from . import common as _c
        _c._scratch_root = Path(root)   # workers share the parent's scratch root (removed by the parent)


def replay_history(world, history, check, bindir=None, keep=False, log_mode=False, extra_env=None, probes=(),
                   interleave=(), want_files=False):
    """Replay `history` in a fresh scratch project; run `check(proj, i, obs)` on every step.
    `probes`: extra (query) ops executed and judged after the last step, not part of the state key.
    `interleave`: (query) ops executed -- unjudged -- after every step of the history.
    Returns (key, violations(list of (step, sig, detail)), per-step observation summaries)."""
    bindir = bindir or _W["bindir"]
    root = scratch_root() / ("h%d_%d" % (os.getpid(), time.monotonic_ns()))
    root.mkdir(parents=True)
    try:
        proj = Project(world, bindir, root, log_mode=log_mode, extra_env=extra_env)
        viols = []
        summ = []
        for i, op in enumerate(history):
            obs = proj.op(list(op))
            if obs.get("rc") == -999:
                viols.append((i, {"kind": "watchdog", "op": op}, {"err": obs.get("err", "")[-500:]}))
            for sig, detail in (check(proj, i, obs) if check else []):
                viols.append((i, sig, detail))
            summ.append({"op": op, "rc": obs.get("rc"), "ran": executed(obs.get("trace", [])) if "trace" in obs else None,
                         "pred": (obs.get("pred") or {}).get("ran"), "listing": obs.get("listing"),
                         "err": (obs.get("err") or "")[-300:] if obs.get("rc") not in (0, None) else "",
                         "files": {n: c for n, (c, _i) in obs["after"].items()} if want_files and "after" in obs else None})
            for q in interleave or ():
                proj.op(list(q))
        key = proj.key()
        last = len(history) - 1
        for q in probes or ():
            obs = proj.op(list(q))
            for sig, detail in (check(proj, last, obs) if check else []):
                viols.append((last, sig, detail))
            summ[-1].setdefault("probes", []).append({"op": q, "rc": obs.get("rc"), "listing": obs.get("listing")})
        return key, viols, summ
    finally:
        if not keep:
            shutil.rmtree(root, ignore_errors=True)


def _job(args):
    world, history, checkname, mod, opts = args
    import importlib
    check = getattr(importlib.import_module(mod), checkname)
    t0 = time.time()
    key, viols, summ = replay_history(world, history, check, log_mode=opts.get("log_mode", False),
                                      extra_env=opts.get("extra_env"), probes=opts.get("probes", ()))
    if opts.get("shadow") and len(history) >= opts.get("shadow_min_len", 0):
        # the same history with query commands inserted after every step must behave identically
        key2, _v2, summ2 = replay_history(world, history, None, log_mode=opts.get("log_mode", False),
                                          extra_env=opts.get("extra_env"), interleave=opts["shadow"], want_files=True)
        key1b, _v1, summ1 = replay_history(world, history, None, log_mode=opts.get("log_mode", False),
                                           extra_env=opts.get("extra_env"), want_files=True)
        a = [(x["rc"], x["ran"], x["files"]) for x in summ1]
        b = [(x["rc"], x["ran"], x["files"]) for x in summ2]
        if a != b or key1b != key2:
            step = next((i for i, (x, y) in enumerate(zip(a, b)) if x != y), len(history) - 1)
            viols.append((len(history) - 1, {"kind": "queries-changed-later-behaviour", "world": world.name},
                          {"first_differing_step": step, "without": summ1, "with": summ2,
                           "key_differs": key1b != key2}))
    if opts.get("all_steps"):
        return history, key, viols, summ, time.time() - t0
    # only violations at the last step are new (prefixes were judged at their own depth)
    last = len(history) - 1
    return history, key, [(i, s, d) for (i, s, d) in viols if i == last], summ, time.time() - t0


def _real(violations):
    return [v for v in violations if v[2].get("kind") != "__stat__"]


class Explorer:
    def __init__(self, bindir, workers=16):
        self.bindir = str(bindir)
        self.pool = ProcessPoolExecutor(max_workers=workers, initializer=_init_worker,
                                        initargs=(self.bindir, str(scratch_root())))

    def close(self):
        self.pool.shutdown(wait=True, cancel_futures=True)

    def run_histories(self, world: World, histories, check_mod, check_name="step_check", opts=None, twice=0):
        """Execute an explicit list of histories (every step judged). The first `twice` are run twice
        and must agree (determinism guard)."""
        opts = dict(opts or {})
        opts["all_steps"] = True
        t0 = time.time()
        jobs = [(world, h, check_name, check_mod, opts) for h in histories]
        jobs += jobs[:twice]
        res = {"states": 0, "transitions": 0, "histories": 0, "violations": [], "depth_done": max((len(h) for h in histories), default=0),
               "capped": False, "outcomes": set(), "samples": [], "nondet": []}
        keys = set()
        first = {}
        for history, key, viols, summ, dt in self.pool.map(_job, jobs, chunksize=2):
            hk = json.dumps(history)
            ok = json.dumps([(s["rc"], sorted(s["ran"]) if s["ran"] else s["ran"], s["listing"]) for s in summ])   # order among siblings built out of band is unspecified (HashSet)
            if hk in first:
                if first[hk] != (key, ok):
                    res["nondet"].append(history)
                continue
            first[hk] = (key, ok)
            res["histories"] += 1
            res["transitions"] += len(history)
            keys.add(key)
            res["outcomes"].add(ok)
            for (i, sig, detail) in viols:
                res["violations"].append((history, i, sig, detail, summ))
            if not res["samples"] or len(res["samples"][0]) < len(summ):
                res["samples"] = [summ]
            if sum(1 for v in res["violations"] if v[2].get("kind") == "watchdog") >= MAX_WATCHDOGS:
                # a subject that hangs makes every further history cost a full watchdog: stop, the violations are in hand
                res["capped"] = True
                res["stopped_early"] = "%d commands hit the watchdog" % MAX_WATCHDOGS
                break
        res["states"] = len(keys)
        res["outcomes"] = len(res["outcomes"])
        res["wall_s"] = time.time() - t0
        if res["nondet"] and not _real(res["violations"]):
            raise MachineryError("nondeterministic replay for histories: %r; first differences: %r"
                                 % (res["nondet"][:3], res.get("nondet_detail", [])[:3]))
        return res

    def explore(self, world: World, alphabet, depth, check_mod, check_name="step_check", dedup=True,
                budget_s=None, opts=None, determinism_depth=2, stats=None, seed_depth=None):
        """BFS over histories up to `depth`. `alphabet(world, history)` -> list of next ops.
        Returns dict with counts and violations [(history, step, sig, detail)]."""
        opts = opts or {}
        t0 = time.time()
        seen = {}
        # the search starts from the empty project and from the world's non-initial seed states
        frontier = [[]] + [[list(op) for op in pre] for pre in getattr(world, "prefixes", [])]
        res = {"states": 0, "transitions": 0, "histories": 0, "violations": [], "depth_done": 0, "capped": False,
               "outcomes": set(), "samples": [], "nondet": []}
        # the seed histories themselves are judged at every step (nobody else does) and registered as seen
        seeds = [h for h in frontier if h]
        if seeds:
            o = dict(opts)
            o["all_steps"] = True
            for history, key, viols, summ, dt in self.pool.map(_job, [(world, h, check_name, check_mod, o) for h in seeds]):
                res["histories"] += 1
                res["transitions"] += len(history)
                seen[key] = history
                for (i, sig, detail) in viols:
                    res["violations"].append((history, i, sig, detail, summ))
        if seed_depth is None:
            seed_depth = depth
        origin = {json.dumps(h): ("seed" if h else "root") for h in frontier}
        for d in range(1, depth + 1):
            jobs = []
            for h in frontier:
                org = origin.get(json.dumps(h), "root")
                if org == "seed" and d > seed_depth:
                    continue   # states reached from the non-initial seeds are extended to a smaller depth
                for op in alphabet(world, h):
                    jobs.append((world, h + [op], check_name, check_mod, opts))
                    origin[json.dumps(h + [op])] = org
            if not jobs:
                break
            if d <= determinism_depth:
                jobs = jobs + jobs  # every shallow history twice: keys and observations must agree
            nxt = []
            keys_at = {}
            capped = False
            def results():
                nonlocal capped
                step = 64 * 16
                for a in range(0, len(jobs), step):
                    if budget_s and time.time() - t0 > budget_s:
                        capped = True
                        return
                    yield from self.pool.map(_job, jobs[a:a + step], chunksize=4)
            for history, key, viols, summ, dt in results():
                res["histories"] += 1
                res["transitions"] += len(history)
                hk = json.dumps(history)
                ok = json.dumps([(s["rc"], sorted(s["ran"]) if s["ran"] else s["ran"], s["listing"]) for s in summ])   # order among siblings built out of band is unspecified (HashSet)
                if hk in keys_at:
                    if keys_at[hk] != (key, ok):
                        res["nondet"].append(history)
                        res.setdefault("nondet_detail", []).append(_first_difference(keys_at[hk], (key, ok)))
                    continue
                keys_at[hk] = (key, ok)
                res["outcomes"].add(json.dumps([summ[-1]["rc"], summ[-1]["ran"], summ[-1]["listing"]]))
                for (i, sig, detail) in viols:
                    res["violations"].append((history, i, sig, detail, summ))
                if sum(1 for v in res["violations"] if v[2].get("kind") == "watchdog") >= MAX_WATCHDOGS:
                    capped = True
                    res["stopped_early"] = "%d commands hit the watchdog" % MAX_WATCHDOGS
                    break
                if summ[-1]["ran"] and (not res["samples"] or len(res["samples"][0]) < len(summ)):
                    res["samples"] = [summ]   # keep a deepest history whose last command ran scripts
                if dedup:
                    if key in seen:
                        continue
                    seen[key] = history
                else:
                    seen[hk] = history
                nxt.append(history)
            res["states"] = len(seen)
            if capped:
                res["capped"] = True
                res["depth_done"] = d - 1 if d > 1 else 0
                res["partial_depth"] = d
                break
            res["depth_done"] = d
            frontier = nxt
        res["wall_s"] = time.time() - t0
        res["outcomes"] = len(res["outcomes"])
        if res["nondet"] and not _real(res["violations"]):
            # two executions of one history disagreed.  When the exploration also observed violations these are reported
            # (each is an observed behaviour of the subject, re-derivable with --replay; a subject that hangs or races is
            # the likeliest cause of the disagreement); only a disagreement without any violation is a machinery error.
            raise MachineryError("nondeterministic replay for histories: %r; first differences: %r"
                                 % (res["nondet"][:3], res.get("nondet_detail", [])[:3]))
        return res
