"""C12 -- dependency cycles end in an error, never in a hang (E1 at -j1, E2 at -j2)."""
import json
import re

from .. import common, e1prop, e2prop, oracles
from ..e1 import executed, replay_history
from ..e2 import scenarios as SC
from ..refmodel import FAIL
from ..worlds import S, World

PID = "C12"


def cyc_world(L, P, sib):
    rules = {}
    for i in range(L):
        rules["c%d.do" % i] = [S(deps=["c%d" % ((i + 1) % L)], out="file" if i % 2 else "stdout")]
    prev = "c0"
    for j in range(P):
        rules["p%d.do" % j] = [S(deps=[prev])]
        prev = "p%d" % j
    targets = ["c%d" % i for i in range(L)] + ["p%d" % j for j in range(P)]
    if L >= 2:
        # one script that asks for two members of the cycle in one redo-ifchange
        rules["both.do"] = [S(deps=["c0", "c%d" % (L - 1)])]
        targets.append("both")
    if sib:
        rules["sib.do"] = [S(deps=["s"])]
        targets.append("sib")
    return World("cyc-L%d-P%d-%s" % (L, P, "sib" if sib else "nosib"), {"s": ["0", "1"]}, rules, targets, targets)


def oob_cycle_world():
    """a cycle that only closes after an edit, through a checksummed member (reached by the out-of-band path)"""
    return World("cyc-oob", {"s": ["0", "1"]},
                 {"t.do": [S(deps=["d"])],
                  "d.do": [S(kind="csum", deps=["s"], out="file"), S(kind="csum", deps=["t"], out="file", tag="cyclic")],
                  "p.do": [S(deps=["t"])]},
                 ["t", "d", "p"], ["t", "p"])


def oob_histories():
    hs = []
    for entry in ("t", "p", "d"):
        for cmd in ("ifchange", "redo"):
            hs.append([["ifchange", ["p"]], ["dovar", "d.do", 1], [cmd, [entry], {}]])
            hs.append([["ifchange", ["p"]], ["dovar", "d.do", 1], [cmd, [entry], {}], [cmd, [entry], {}]])
    return hs


def post_cycle_world():
    """a cycle that closes through a checksummed target which has ALREADY run redo-stamp (unchanged content, so it counts
    as "checked in this run") when it asks for the dependency that leads back to it"""
    return World("cyc-post", {"s": ["0", "1"]},
                 {"all.do": [S(deps=["cfg"])], "cfg.do": [S(kind="csum", deps=["s"], out="file", post=["obj"])],
                  "obj.do": [S(deps=["s"]), S(deps=["cfg"], tag="cyclic")]},
                 ["all", "cfg", "obj"], ["all", "cfg"])


def post_histories():
    hs = []
    for entry in ("all", "cfg", "obj"):
        for cmd in ("ifchange", "redo"):
            hs.append([["ifchange", ["all"]], ["dovar", "obj.do", 1], [cmd, [entry], {}]])
    return hs


def ids_cycle_world():
    """a cycle entered through a long acyclic prefix of *younger* targets, after enough unrelated targets were built
    that database ids have two digits (a cycle member with a small id below ancestors with larger ids)"""
    rules = {"core.do": [S(deps=["gen"])], "gen.do": [S(deps=["s"], out="file"), S(deps=["core"], out="file", tag="cyclic")],
             "app.do": [S(deps=["st3"])], "st3.do": [S(deps=["st2"])], "st2.do": [S(deps=["st1"], out="file")],
             "st1.do": [S(deps=["core"])]}
    libs = ["lib%d" % i for i in range(1, 8)]
    for l in libs:
        rules[l + ".do"] = [S(deps=["s"])]
    return World("cyc-ids", {"s": ["0", "1"]}, rules, ["app", "st3", "st2", "st1", "core", "gen"] + libs, ["app"]), libs


def ids_histories():
    w, libs = ids_cycle_world()
    pre = [["ifchange", ["core"]], ["ifchange", libs], ["ifchange", ["app"]], ["dovar", "gen.do", 1]]
    hs = []
    for entry in ("app", "st1", "core", "gen"):
        for cmd in ("ifchange", "redo"):
            hs.append(pre + [[cmd, [entry], {}]])
    return hs


def all_worlds(maxL=4, maxP=2):
    out = {}
    for L in range(1, maxL + 1):
        for P in range(0, maxP + 1):
            for sib in (False, True):
                w = cyc_world(L, P, sib)
                out[w.name] = w
    return out


CYC = re.compile(r"cyclic dependency|exit code 208|\(exit 208\)", re.I)


def step_check(proj, i, obs):
    op = obs["op"]
    if op[0] not in ("ifchange", "redo"):
        return []
    out = []
    m = proj.model
    opts = op[2] if len(op) > 2 else {}
    entries = [t for t in op[1] if t != "sib"]
    if proj.w.name == "cyc-oob" and m.variant.get("d.do") == 0:
        return oracles.check_exit(proj, obs)    # the graph is still acyclic here
    if proj.w.name == "cyc-ids" and m.variant.get("gen.do") == 0:
        return oracles.check_exit(proj, obs)
    if proj.w.name == "cyc-post" and m.variant.get("obj.do") == 0:
        return oracles.check_exit(proj, obs)
    out.append(e1prop.stat("commands-entering-a-cycle"))
    if obs["rc"] == -999:
        return out   # watchdog already reported by the explorer as a violation of termination
    if obs["rc"] == 0:
        out.append(({"kind": "cycle-exit-0", "world": proj.w.name, "entry": entries, "cmd": op[0]}, {"err": obs["err"][-500:]}))
    elif obs["rc"] == 101 or "panicked" in obs["err"]:
        out.append(({"kind": "cycle-abort", "world_L": proj.w.name.split("-")[1], "cmd": op[0]},
                    {"world": proj.w.name, "entry": entries, "err": obs["err"][-500:]}))
    elif not CYC.search(obs["err"]):
        out.append(({"kind": "cycle-not-identified", "world": proj.w.name, "entry": entries, "cmd": op[0], "rc": obs["rc"]},
                    {"err": obs["err"][-700:]}))
    ran = executed(obs["trace"])
    # (a forced `redo` of two members runs the second one again although it failed below the first: that is `redo`; what is
    # judged is "more often than the reference says")
    pred = (obs.get("pred") or {}).get("ran") or []
    dup = sorted({x for x in ran if ran.count(x) > max(1, pred.count(x))})
    if dup:
        out.append(({"kind": "ran-twice", "world": proj.w.name, "targets": dup}, {"ran": ran}))
    if "sib" in op[1] and opts.get("k"):
        # the acyclic sibling is unaffected under keep-going
        want = m.evaluate("sib")
        got = obs["after"].get("sib", (None, None))[0]
        if got != want:
            out.append(({"kind": "sibling-not-built-under-keep-going", "world": proj.w.name, "order": op[1]},
                        {"want": want, "got": got, "err": obs["err"][-500:]}))
    return out


def histories(w):
    hs = []
    for t in w.targets:
        if t == "sib":
            continue
        for cmd in ("ifchange", "redo"):
            hs.append([[cmd, [t], {}]])
            hs.append([[cmd, [t], {}], [cmd, [t], {}]])      # a second attempt behaves the same
            if "sib" in w.targets:
                for k in (False, True):
                    o = {"k": True} if k else {}
                    hs.append([[cmd, [t, "sib"], o]])
                    hs.append([[cmd, ["sib", t], o]])
    # two members of the cycle named by ONE command (serially: the first one's build reports the cycle, the second is
    # refused or reports it again -- never a wait)
    members = [t for t in w.targets if t.startswith("c")]
    if len(members) >= 2:
        for cmd in ("ifchange", "redo"):
            hs.append([[cmd, [members[0], members[-1]], {}]])
            hs.append([[cmd, [members[-1], members[0]], {}]])
            hs.append([[cmd, [members[0], members[-1]], {"k": True}]])
    return hs


def e2_scenarios(tier):
    q = tier == "quick"
    L = []
    w2 = cyc_world(2, 0, False)
    w3 = cyc_world(3, 1, True)
    vis = SC.LOCKS + ["tok-read", "tok-write", "cheat-read"]
    L.append((SC.scn("cyc2-j2-both-members", w2, ["redo --no-log -j2 c0 c1"], visible=vis), 1 if q else 2))
    L.append((SC.scn("cyc2-j2-one-member", w2, ["redo --no-log -j2 c0"], visible=vis), 0 if q else 2))
    if not q:
        L.append((SC.scn("cyc3-j2-prefix+sib", w3, ["redo --no-log -j2 -k p0 sib"], visible=vis), 1))
        L.append((SC.scn("cyc3-j2-two-members", w3, ["redo --no-log -j2 c0 c2"], visible=vis), 2))
        L.append((SC.scn("cyc2-two-invocations", w2, ["redo-ifchange c0", "redo-ifchange c1"], visible=vis), 2))
    return L


def e2_oracle(scn, res):
    out = []
    if res["verdict"] != "done":
        return out   # deadlock / livelock / step cap are reported by the base oracle
    named = False
    for n, rc in res["roots"].items():
        err = res["stderr"].get(n, "")
        if rc == 0:
            out.append(({"kind": "cycle-exit-0", "scenario": scn["name"]}, {"stderr": err[-500:]}))
        elif CYC.search(err):
            named = True
    # With several invocations the one that runs into the cycle names it; another one may merely find that a target it
    # asked for has failed in the first one's run (non-zero, without having met a cycle itself).
    if not named and not any(rc == 101 for rc in res["roots"].values()):
        out.append(({"kind": "cycle-not-identified", "scenario": scn["name"], "rc": sorted(res["roots"].values())[0]},
                    {"stderr": {n: e[-400:] for n, e in res["stderr"].items()}}))
    if "sib" in scn["world"].targets and "-k" in scn["roots"][0]["argv"]:
        if res["files"].get("sib") != "sib(0)\n":
            out.append(({"kind": "sibling-not-built-under-keep-going", "scenario": scn["name"]}, {"files": res["files"].get("sib")}))
    return out


def main(tier):
    W = all_worlds(4 if tier == "thorough" else 3, 2 if tier == "thorough" else 1)
    plan = [(w, histories(w), 0) for w in W.values()]
    plan.append((oob_cycle_world(), oob_histories(), 0))
    plan.append((ids_cycle_world()[0], ids_histories(), 0))
    plan.append((post_cycle_world(), post_histories(), 0))
    rc1 = e1prop.run_property(
        PID, tier, plan, "rv.props.c12", explore_opts={"all_steps": True},
        rule="generated cyclic worlds: cycle length L in 1..4 (quick 1..3), acyclic prefix of length 0..2 (quick 0..1), with/without an "
             "acyclic sibling; entered from EVERY node (each prefix node and each cycle member) with redo-ifchange and redo, twice in a "
             "row, and together with the sibling in both orders with and without keep-going; -j1 (E1). Oracle: the command terminates "
             "(watchdog 60 s only as machinery guard), exits non-zero, not by abort, and identifies a cyclic dependency (message or "
             "status 208 in the tree); the sibling is built under keep-going. The -j2 part (E2, all schedules <= b deviations) decides "
             "termination as absence of reachable deadlock/livelock states.",
        assumptions=["E1 part at -j1, REDO_LOG=0", "E2 part: scenarios listed under e2 in this file"],
        budget_s=None)
    # E2 half writes into the same evidence file under 'e2'
    ev = json.load(open(common.EVIDENCE_DIR / "C12.json"))
    rc2 = e2prop.run_property(
        PID, tier, e2_scenarios(tier), e2_oracle,
        rule=ev["coverage"]["rule"], assumptions=ev["assumptions"], budget_s=600 if tier == "quick" else 3000,
        extra={"e1": {k: ev["coverage"][k] for k in ("states", "transitions", "traces_validated_against_impl", "worlds",
                                                    "oracle_counters", "distinct_observed_outcomes")},
               "e1_violations": ev.get("violations", 0)})
    return 1 if (rc1 or rc2) else 0


def replay(path):
    doc = json.load(open(path))
    if doc.get("engine") == "E2":
        sc = {s["name"]: s for s, _ in e2_scenarios("thorough")}
        return e2prop.replay(PID, sc, e2_oracle, path)
    W = all_worlds()
    W["cyc-oob"] = oob_cycle_world()
    W["cyc-ids"] = ids_cycle_world()[0]
    W["cyc-post"] = post_cycle_world()
    bindir = common.build_subject()
    key, viols, summ = replay_history(W[doc["world"]], doc["history"], step_check, bindir=bindir)
    common.cleanup_scratch()
    bad = [(i, s, d) for i, s, d in viols if s.get("kind") != "__stat__"]
    for s in summ:
        print(s)
    for v in bad:
        print("VIOLATION-REPLAYED", v)
    kf = common.Verdict(PID)
    new = [v for v in bad if not any(kf.matches(f, v[1]) for f in kf.kf)]
    return 1 if new else 0
