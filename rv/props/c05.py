"""C05 -- failures propagate, are remembered as dirty, and are retried next run.

Serial half (engine E1): explicit enumeration of command lines / redo-ifchange lists x fail points x -k.
Parallel half (engine E2): added by rv/props/c05_e2.py when the scheduler is available.
"""
import itertools
import json
import re

from .. import common, e1prop, oracles, worlds
from ..e1 import ended, executed, replay_history
from ..refmodel import FAIL
from ..worlds import S, World

PID = "C05"
NAMES = ["f", "g", "h", "i"]


def selections(maxlen):
    out = []
    for n in range(1, maxlen + 1):
        out += [list(p) for p in itertools.permutations(NAMES, n)]
    if maxlen == 2:
        # quick tier: also the lists of three whose first element fails -- the reference tolerates that the sibling right
        # after a failure was already started (slack S2), so "everything after a failure is still built" shows only with
        # two siblings behind the failing one
        out += [list(p) for p in itertools.permutations(NAMES, 3) if p[0] == "f"]
    return out


def world(maxlen=3, sig=False):
    """sig: f does not exit non-zero, it is killed by a signal (SIGKILL from itself: the OOM killer, a timeout, ...)"""
    sels = selections(maxlen)
    return World(
        "c05-sig" if sig else "c05", {"flag": ["0", "1"], "s": ["0", "1"]},
        {"f.do": [S(deps=["s"], fail="flag", fail_kill=sig)], "g.do": [S(deps=["f"], out="file")], "h.do": [S(deps=["s"])],
         "i.do": [S(deps=["h"], out="file")],
         "all.do": [S(deps=sel, tag="sel" + "".join(sel)) for sel in sels]},
        ["all", "f", "g", "h", "i"], ["all"]), sels


CMDS = [("ifchange", ("lib",)), ("redo", ("lib",)), ("ifchange", ("app",)), ("redo", ("app",))]


def driver_world(maxlen=3):
    """several redo commands inside ONE run: driver.do runs a sequence of redo-ifchange / redo commands, records each
    status and carries on.  lib fails iff the flag `broken` is 1 -- an input it does not declare, so a redo-ifchange of
    lib finds it up to date (and marks it checked for this run) right before a forced `redo lib` fails."""
    seqs = []
    for n in range(1, maxlen + 1):
        seqs += [list(p) for p in itertools.product(CMDS, repeat=n)]
    w = World(
        "c05-driver", {"s": ["0", "1"], "broken": ["0", "1"]},
        {"lib.do": [S(deps=["s"], fail="broken", fail_undeclared=True)], "app.do": [S(deps=["lib"], out="file")],
         "driver.do": [S(seq=seq, tag="seq%d" % i) for i, seq in enumerate(seqs)]},
        ["driver", "app", "lib"], ["driver"])
    return w, seqs


def driver_histories(seqs):
    hs = []
    for k in range(len(seqs)):
        hs.append([["ifchange", ["app"]], ["edit", "broken", "1"], ["dovar", "driver.do", k], ["redo", ["driver"]],
                   ["redo", ["driver"]], ["edit", "broken", "0"], ["redo", ["driver"]]])
    return hs


def driver_check(proj, i, obs):
    op = obs["op"]
    if op[0] not in ("ifchange", "redo"):
        return []
    out = []
    out += oracles.check_exit(proj, obs)
    out += oracles.check_runset(proj, obs)
    pred = obs["pred"].get("seq", {}).get("driver")
    if pred is not None:
        got = {}
        for l in obs["trace"]:
            if l.startswith("Q driver "):
                _q, _t, idx, rc = l.split(" ")
                got[int(idx)] = int(rc)
        out.append(e1prop.stat("driver-runs-judged"))
        for idx, ok in enumerate(pred):
            if idx not in got:
                out.append(({"kind": "driver-command-not-reached", "index": idx}, {"trace": obs["trace"]}))
            elif (got[idx] == 0) != ok:
                seq = proj.w.rules["driver.do"][proj.model.variant["driver.do"]].seq
                out.append(({"kind": "wrong-status-inside-a-run", "command": list(seq[idx]), "expected_success": ok,
                             "after": [list(c) for c in seq[:idx]]},
                            {"got_rc": got[idx], "trace": obs["trace"], "err": obs["err"][-500:]}))
            if not ok:
                out.append(e1prop.stat("commands-inside-a-run-expected-to-fail"))
    return out


REC = re.compile(r"^@@REDO:([a-z]+):(\d+):[0-9.]+@@ (.*)$")


def step_check(proj, i, obs):
    op = obs["op"]
    if op[0] not in ("ifchange", "redo"):
        return []
    out = []
    opts = op[2] if len(op) > 2 else {}
    k = bool(opts.get("k"))
    m = proj.model
    pred = obs["pred"]
    out.append(e1prop.stat("build-commands-judged"))
    # (a) exit status: non-zero iff a requested target cannot be built; aborts are never acceptable
    out += oracles.check_exit(proj, obs)
    # (b)(c) retried next run / at most once per run / nothing skipped as up to date: executed set == reference
    out += oracles.check_runset(proj, obs)
    # contents after exit 0
    out += oracles.check_content(proj, obs)
    ran = executed(obs["trace"])
    endd = set(ended(obs["trace"]))
    # (a') a script whose redo-ifchange requested a failing target saw a non-zero status
    rrec = {l.split(" ")[1]: l.split(" ")[2] for l in obs["trace"] if l.startswith("R ")}
    frec = {l.split(" ")[1] for l in obs["trace"] if l.startswith("F ")}
    for x in set(ran):
        want = m.evaluate(x)
        if want is FAIL and x in endd:
            out.append(({"kind": "script-completed-despite-failed-dependency", "target": x},
                        {"trace": obs["trace"]}))
        if want is FAIL:
            out.append(e1prop.stat("failing-script-executions"))
    # (d) with -k every requested target that can be built is built by this command
    if k:
        reqs = op[1] if op[1] != ["all"] else [d for d in m.rule_for("all")[1].deps]
        for t in reqs:
            want = m.evaluate(t)
            if want is FAIL:
                continue
            got = obs["after"].get(t, (None, None))[0]
            if got != want:
                out.append(({"kind": "keep-going-skipped-buildable-target", "target": t, "via": "all.do" if op[1] == ["all"] else "cmdline"},
                            {"want": want, "got": got, "ran": ran, "err": obs["err"][-600:]}))
        out.append(e1prop.stat("keep-going-commands"))
    else:
        # (e) no `do` after a known failure within one process's own record stream
        per = {}
        for line in obs["err"].split("\n"):
            mm = REC.match(line.strip())
            if not mm:
                continue
            kind, pid, text = mm.groups()
            st = per.setdefault(pid, {"failed": False})
            if kind == "done" and not text.startswith("0 "):
                st["failed"] = True
            elif kind == "do" and st["failed"]:
                out.append(({"kind": "started-after-known-failure", "target": text}, {"err": obs["err"][-800:]}))
    if obs["rc"] != 0:
        out.append(e1prop.stat("failing-commands"))
    return out


def histories(sels, tier):
    hs = []
    for si, sel in enumerate(sels):
        for mode in ("ifchange", "redo", "all"):
            for k in (False, True):
                o = {"k": True} if k else {}
                if mode == "all":
                    pre = [["dovar", "all.do", si]]
                    B = ["ifchange", ["all"], o]
                else:
                    pre = []
                    B = [mode, sel, o]
                # failure at first build, repeated, then repaired
                hs.append(pre + [["edit", "flag", "1"], B, B, ["edit", "flag", "0"], B])
                # failure at a later rebuild, repeated, then repaired
                hs.append(pre + [B, ["edit", "flag", "1"], ["edit", "s", "1"], B, B, ["edit", "flag", "0"], B])
    return hs


def main(tier):
    w, sels = world(2 if tier == "quick" else 3)
    hs = histories(sels, tier)
    dw, seqs = driver_world(3)
    ws, sels_s = world(2, sig=True)        # the same with a script that dies from a signal (lists <= 2 in both tiers)
    hs_s = histories(sels_s, tier)
    rc1 = e1prop.run_property(
        PID, tier, [(w, hs, 0), (dw, driver_histories(seqs), 0), (ws, hs_s, 0)], "rv.props.c05", check_names={"c05-driver": "driver_check"},
        rule="world {f fails iff flag, g->f, h, i->h}; every ordered selection of <= n of {f,g,h,i} (quick n=2, thorough n=3) "
             "(quick: plus the lists of three that start with the failing target) "
             "as the command line of redo-ifchange, of redo, and as the redo-ifchange list inside all.do; x {-k, no -k}; x "
             "{failure at first build, failure at a later rebuild}; each history = build, build again unchanged, repair, build. "
             "Oracles: exit status vs reference, executed set == reference incl. retry in the next run, <=1 execution per run, "
             "no script completes after a failed dependency, -k builds every buildable requested target, without -k no `do` "
             "record follows a non-zero `done` in one process's record stream, contents after exit 0. Serial (-j1) half of "
             "the property; the -j2 interleavings are explored by the E2 scenarios of C05/C09. Second family: a driver script runs every "
             "sequence of <= n (quick 2, thorough 3) commands from {redo-ifchange lib, redo lib, redo-ifchange app, redo app} inside ONE run "
             "(lib fails through an undeclared input): the status of every command inside the run must match the reference.",
        assumptions=["-j1, REDO_LOG=0", "one world shape (failing leaf, dependent, independent sibling, dependent of sibling)"],
        budget_s=None)
    from .. import e2prop
    ev = json.load(open(common.EVIDENCE_DIR / "C05.json"))
    rc2 = e2prop.run_property(
        PID, tier, e2_scenarios(tier), e2_oracle, rule=ev["coverage"]["rule"] + " Parallel half (E2): redo -j2 [-k] over the same "
        "world with the failing leaf, every schedule with <= b deviations (quick 1, thorough 2): non-zero exit, failing script at most "
        "once per run, failure recorded, dependents not recorded up to date, -k builds every independent target.",
        assumptions=ev["assumptions"], budget_s=600 if tier == "quick" else 3000,
        extra={"e1": {k: ev["coverage"][k] for k in ("states", "transitions", "traces_validated_against_impl", "worlds",
                                                    "oracle_counters", "distinct_observed_outcomes")},
               "e1_violations": ev.get("violations", 0)})
    return 1 if (rc1 or rc2) else 0


# ---------------------------------------------------------------------------
# parallel half (E2): the same failure semantics under every schedule with <= b deviations at -j2

def e2_scenarios(tier):
    from ..e2 import scenarios as SC
    w, _sels = world(1)
    q = tier == "quick"
    vis = SC.TOKENS + ["lock-try"]
    L = []
    for k in (False, True):
        flag = " -k" if k else ""
        L.append((SC.scn("fail-j2%s-g-h-i" % ("-k" if k else ""), w, ["redo --no-log -j2%s g h i" % flag],
                         setup=[["edit", "flag", "1"]], visible=vis, keep_going=k), 1 if q else 2))
    # a second invocation (-j1) names h, which the first one is building, and then f, which fails while it waits for h:
    # once the failure is known it must not go on to build h
    L.append((SC.scn("fail-while-waiting-for-locked-target", w, ["redo-ifchange h", "redo --no-log h f"],
                     setup=[["edit", "flag", "1"]], visible=SC.LOCKS + ["tok-read", "tok-write", "select-order"],
                     strict_after_failure=True, failing_root="T1"), 1 if q else 2))
    if not q:
        L.append((SC.scn("fail-j2-k-f-g-h", w, ["redo --no-log -j2 -k f g h"], setup=[["edit", "flag", "1"]], visible=vis,
                         keep_going=True), 2))
        L.append((SC.scn("fail-rebuild-j2-k-g-i", w, [{"name": "T0", "argv": ["redo-ifchange", "g", "i"], "env": {"REDO_KEEP_GOING": "1"}}],
                         setup=[["ifchange", ["g", "i"]], ["edit", "flag", "1"], ["edit", "s", "1"]], visible=vis,
                         keep_going=True, jobserver=2, env_k=True), 2))
    return L


def e2_oracle(scn, res):
    out = []
    if res["verdict"] != "done":
        return out
    name = scn["name"]
    for n, rc in res["roots"].items():
        if rc == 0 and scn.get("failing_root", n) == n:
            out.append(({"kind": "missed-failure", "scenario": name}, {"stderr": res["stderr"].get(n, "")[-500:]}))
    if scn.get("strict_after_failure"):
        # serial (-j1) invocation: a script of the run in which f failed never begins after f's failure
        frun = None
        failed_at = None
        for i, l in enumerate(res["trace"]):
            p_ = l.split(" ")
            if p_[0] == "B" and p_[1] == "f":
                frun = p_[2]
            if p_[0] == "F" and p_[1] == "f":
                failed_at = i
        if failed_at is not None:
            late = [l for l in res["trace"][failed_at + 1:] if l.startswith("B ") and l.split(" ")[2] == frun]
            if late:
                out.append(({"kind": "started-after-known-failure", "scenario": name, "target": late[0].split(" ")[1]},
                            {"trace": res["trace"]}))
    ran = [l.split(" ")[1] for l in res["trace"] if l.startswith("B ")]
    if ran.count("f") > 1:
        out.append(({"kind": "failed-target-executed-twice-in-one-run", "scenario": name, "count": ran.count("f")}, {"ran": ran}))
    if scn.get("keep_going"):
        # every requested target that does not depend on the failed one is built
        for t, want in (("h", "h(%s)\n"), ("i", "i(h(%s))\n")):
            requested = t in " ".join(scn["roots"][0]["argv"]).split() or (t == "h" and "i" in scn["roots"][0]["argv"])
            if requested:
                sval = "1" if ["edit", "s", "1"] in scn.get("setup", []) else "0"
                if res["files"].get(t) != want % sval:
                    out.append(({"kind": "keep-going-skipped-buildable-target", "scenario": name, "target": t},
                                {"got": res["files"].get(t), "ran": ran}))
    else:
        per = {}
        for text in res["stderr"].values():
            for line in text.split("\n"):
                m = re.match(r"^redo\s+(\S+)(?: \(exit (\d+)\))?$", line.strip())
        # without -k the pretty top-level log has no pids; the per-process rule (e) is judged by the serial half
    # a failed target is recorded as failed (so the next run retries it)
    rows = {r[0]: r for r in (res.get("dbrows") or [])}
    if "f" in rows and not rows["f"][2]:
        out.append(({"kind": "failure-not-recorded", "scenario": name}, {"row": rows["f"]}))
    for t in ("g",):
        if t in ran and res["files"].get(t) is not None and t in rows and rows[t][1] and not rows[t][2]:
            out.append(({"kind": "dependent-of-failed-target-recorded-up-to-date", "scenario": name, "target": t}, {"row": rows[t]}))
    return out


def replay(path):
    doc = json.load(open(path))
    if doc.get("engine") == "E2":
        from .. import e2prop
        sc = {s["name"]: s for s, _ in e2_scenarios("thorough")}
        return e2prop.replay(PID, sc, e2_oracle, path)
    w, sels = world(3)
    chk = step_check
    if doc.get("world") == "c05-driver":
        w, _ = driver_world(3)
        chk = driver_check
    if doc.get("world") == "c05-sig":
        w, _ = world(2, sig=True)
    bindir = common.build_subject()
    key, viols, summ = replay_history(w, doc["history"], chk, bindir=bindir)
    common.cleanup_scratch()
    bad = [(i, s, d) for i, s, d in viols if s.get("kind") != "__stat__"]
    for s in summ:
        print(s)
    for v in bad:
        print("VIOLATION-REPLAYED", v)
    kf = common.Verdict(PID)
    new = [v for v in bad if not any(kf.matches(f, v[1]) for f in kf.kf)]
    return 1 if new else 0
