"""C16 -- concurrent commands on one project neither fail spuriously nor lose state (engine E2)."""
import re

from .. import e2prop
from ..e2 import scenarios as SC

PID = "C16"
VIS = SC.CORE + SC.DB
BAD = re.compile(r"database is locked|database is busy|SQLITE|no such table|schema version check failed|disk I/O error|"
                 r"could not connect|malformed|constraint failed|unable to open", re.I)


def scenarios(tier):
    w = SC.W()
    q = tier == "quick"
    L = []
    # (a) the very first commands on a project (no .redo yet)
    L.append((SC.scn("first-2-builds", w["two"], ["redo-ifchange x", "redo-ifchange y"], visible=VIS), 1 if q else 2))
    L.append((SC.scn("first-build+targets", w["two"], ["redo-ifchange x", "redo-targets"], visible=VIS), 1 if q else 3))
    L.append((SC.scn("first-build+ood", w["two"], ["redo-ifchange x", "redo-ood"], visible=VIS), 1 if q else 2))
    if not q:
        L.append((SC.scn("first-3", w["two"], ["redo-ifchange x", "redo-ifchange y", "redo-sources"], visible=VIS), 2))
    # two forced builds of one target that was never built: the one that waits must not act on what it read before waiting
    L.append((SC.scn("first-redo-x+redo-x", w["one"], ["redo --no-log x", "redo --no-log x"], visible=VIS, forced_twice="x"), 1 if q else 2))
    # (b) the same on an existing database
    pre = [["ifchange", ["x"]], ["edit", "s", "1"]]
    L.append((SC.scn("db-2-builds", w["two"], ["redo-ifchange x", "redo-ifchange y"], setup=pre, visible=VIS), 1 if q else 2))
    L.append((SC.scn("db-build+ood+targets", w["two"], ["redo-ifchange x", "redo-ood", "redo-targets"], setup=pre, visible=VIS), 1 if q else 2))
    # a query that has to write (redo-ood forgetting a target whose file was removed) against a build
    L.append((SC.scn("db-removed-target-ood+build", w["two"], ["redo-ood", "redo-ifchange y"],
                     setup=[["ifchange", ["x", "y"]], ["rm", "x"], ["edit", "s", "1"]], visible=VIS), 1 if q else 2))
    # `redo F` for a file that exists and that redo has never heard of (a source, a script): refused with a message -- a
    # row is written for it all the same, next to another command's writes
    L.append((SC.scn("db-redo-of-unknown-existing-file+build", w["two"], ["redo --no-log y.do", "redo-ifchange y"], setup=pre, visible=VIS), 1 if q else 2))
    L.append((SC.scn("first-redo-of-unknown-existing-file+build", w["two"], ["redo --no-log s y.do", "redo-ifchange x"], visible=VIS), 1 if q else 2))
    # (c) builds that share a dependency / the same target
    L.append((SC.scn("db-shared-dep", w["shared"], ["redo-ifchange t1", "redo-ifchange t2"],
                     setup=[["ifchange", ["t1", "t2"]], ["edit", "s", "1"]], visible=VIS), 1 if q else 2))
    # two parallel builds that each want, last, a target the other one starts with: each has a job of its own running (or
    # just finished) when it finds the other's target locked -- nobody may block on a foreign lock while it still holds the
    # lock of a finished job whose result is not recorded (deadlock; with real fcntl locks: EDEADLK, "a lock error")
    from ..worlds import S, World
    xw = World("crossed-lists", {"s": ["0", "1"]},
               {"a.do": [S(deps=["s"])], "a2.do": [S(deps=["s"], out="file")], "b.do": [S(deps=["s"])], "b2.do": [S(deps=["s"], out="file")]},
               ["a", "a2", "b", "b2"], ["a", "b"])
    L.append((SC.scn("crossed-lists-j2", xw, ["redo --no-log -j2 a a2 b", "redo --no-log -j2 b b2 a"],
                     visible=VIS + ["select", "tok-read", "tok-write", "select-order", "lock-wait", "unlock", "lock-try"]), 1 if q else 2))
    if not q:
        L.append((SC.scn("first-redo+redo", w["two"], ["redo --no-log x", "redo --no-log y"], visible=VIS), 2))
    return L


def expected_rows(scn):
    """Files rows / Deps edges each command must have written (all scripts succeed)."""
    names = set()
    edges = set()
    world = scn["world"]
    for r in scn["roots"]:
        a = r["argv"]
        if a[0] in ("redo-ifchange", "redo"):
            todo = [t for t in a[1:] if not t.startswith("-")]
            while todo:
                t = todo.pop()
                if t in names:
                    continue
                names.add(t)
                df = t + ".do"
                if df in world.rules:
                    names.add(df)
                    edges.add((t, df))
                    for d in world.rules[df][0].deps:
                        edges.add((t, d))
                        todo.append(d)
    return names, edges


def oracle(scn, res):
    out = []
    if res["verdict"] in ("done", "deadlock"):
        from .c09 import holds_unrecorded_while_waiting
        out += holds_unrecorded_while_waiting(scn, res)
    if res["verdict"] != "done":
        return out
    for n, rc in res["roots"].items():
        err = res["stderr"].get(n, "")
        m = BAD.search(err)
        if rc != 0 or m:
            out.append(({"kind": "spurious-failure", "scenario": scn["name"], "cmd": scn["roots"][int(n[1:])]["argv"][0],
                         "rc": rc, "msg": (m.group(0).lower() if m else "")},
                        {"stderr": err[-700:], "root": n}))
    if res.get("integrity") not in (None, [("ok",)]):
        out.append(({"kind": "database-integrity", "scenario": scn["name"]}, {"integrity": res["integrity"]}))
    if all(rc == 0 for rc in res["roots"].values()):
        names, edges = expected_rows(scn)
        have = {r[0] for r in (res.get("dbrows") or [])}
        missing = sorted(names - have)
        if missing:
            out.append(({"kind": "lost-file-records", "scenario": scn["name"], "names": missing}, {"have": sorted(have)}))
        dk = res.get("dbkey")
        if dk and len(dk) == 2:
            have_e = {(t, s) for (t, s, m, d) in dk[1]}
            me = sorted(edges - have_e)
            if me:
                out.append(({"kind": "lost-dependency-records", "scenario": scn["name"], "edges": me}, {"have": sorted(have_e)}))
        # file contents are right
        from ..refmodel import Model
        m = Model(scn["world"])
        for op in scn.get("setup", []):
            if op[0] == "edit":
                m.user_write(op[1], op[2])
        for t in names:
            if t + ".do" in scn["world"].rules:
                want = m.evaluate(t)
                if res["files"].get(t) != want:
                    out.append(({"kind": "wrong-content", "scenario": scn["name"], "target": t},
                                {"want": want, "got": res["files"].get(t)}))
        # what a script built is recorded as generated (not taken for a source or a user's file)
        gen = {r[0]: r[1] for r in (res.get("dbrows") or [])}
        for t in names:
            if t + ".do" in scn["world"].rules and not gen.get(t):
                out.append(({"kind": "built-target-not-recorded-as-generated", "scenario": scn["name"], "target": t}, {"row": gen.get(t)}))
        if scn.get("forced_twice"):
            n = sum(1 for l in res["trace"] if l.startswith("B %s " % scn["forced_twice"]))
            if n != 2:
                out.append(({"kind": "forced-build-skipped", "scenario": scn["name"], "count": n}, {"trace": res["trace"]}))
            for nm, err in res["stderr"].items():
                if "you modified it" in err or "not redoing" in err:
                    out.append(({"kind": "other-invocations-output-taken-for-user-file", "scenario": scn["name"]}, {"stderr": err[-400:]}))
        ids = [r[0] for r in (res.get("runids") or [])]
        if len(ids) != len(set(ids)):
            out.append(({"kind": "duplicate-run-ids", "scenario": scn["name"]}, {"ids": ids}))
    return out


# ---------------------------------------------------------------------------
# an environment player the scheduler cannot provide: a writer that keeps the database's write lock for a while
# (a gate inside an IMMEDIATE transaction would only manufacture such waits, so none is placed there).  Commands that
# start meanwhile have to wait, not fail.  Hold times are enumerated, not sampled: they are the scenario's parameter.

HOLD_S = {"quick": [0.2, 8.0], "thorough": [0.2, 3.0, 8.0, 20.0]}
WAITERS = [["redo-targets"], ["redo-sources"], ["redo-ood"], ["redo-ifchange", "y"]]


def long_writer(tier):
    import sqlite3
    import subprocess
    import threading
    import time
    from .. import common
    from ..e1 import Project
    bindir = common.build_subject()
    w = SC.W()["two"]
    results = []

    def one(hold):
        root = common.scratch_root() / ("lw%d_%d" % (int(hold * 10), time.monotonic_ns()))
        root.mkdir(parents=True)
        proj = Project(w, bindir, root)
        obs = proj.op(["ifchange", ["x"]])
        if obs["rc"] != 0:
            results.append((hold, [({"kind": "spurious-failure", "scenario": "long-writer", "cmd": "redo-ifchange", "rc": obs["rc"],
                                     "msg": "setup"}, {"stderr": obs["err"][-500:]})]))
            return
        con = sqlite3.connect(str(proj.p / ".redo" / "db.sqlite3"), isolation_level=None, timeout=60)
        con.execute("BEGIN IMMEDIATE")
        procs = [(argv, subprocess.Popen(argv, cwd=str(proj.p), env=proj.env, stdin=subprocess.DEVNULL, stdout=subprocess.PIPE,
                                         stderr=subprocess.PIPE, start_new_session=True)) for argv in WAITERS]
        time.sleep(hold)
        con.execute("COMMIT")
        con.close()
        bad = []
        for argv, p_ in procs:
            try:
                out, err = p_.communicate(timeout=90)
            except subprocess.TimeoutExpired:
                p_.kill()
                out, err = p_.communicate()
                bad.append(({"kind": "hang-after-writer-finished", "scenario": "long-writer", "cmd": argv[0], "hold_s": hold}, {}))
                continue
            err = err.decode("utf-8", "replace")
            m = BAD.search(err)
            if p_.returncode != 0 or m:
                bad.append(({"kind": "spurious-failure", "scenario": "long-writer", "cmd": argv[0], "rc": p_.returncode,
                             "msg": (m.group(0).lower() if m else ""), "hold_s": hold}, {"stderr": err[-600:]}))
        results.append((hold, bad))
    ths = [threading.Thread(target=one, args=(h,)) for h in HOLD_S[tier]]
    for t in ths:
        t.start()
    for t in ths:
        t.join()
    return sorted(results)


def main(tier):
    from .. import common
    lw = long_writer(tier)
    v = common.Verdict(PID)
    for hold, bad in lw:
        for sig, detail in bad:
            v.report(sig, {"engine": "env-player", "scenario": "long-writer", "hold_s": hold, "waiters": WAITERS, "detail": detail})
    rc0 = v.finish()
    rc1 = e2prop.run_property(
        PID, tier, scenarios(tier), oracle,
        extra={"long_writer": {"hold_seconds": [h for h, _ in lw], "waiting_commands": WAITERS,
                               "violations": sum(len(b) for _, b in lw)}},
        rule="2-3 top-level commands (redo-ifchange / redo / redo-ood / redo-targets / redo-sources) started together on a "
             "project without .redo, and on an existing database; every schedule with <= b deviations (quick 1, thorough 2-3) "
             "at the gates: first-run creation stages (exists-check / unlink / connect / create), every transaction begin, "
             "run-id allocation, locks, event loop, scripts. Oracle: every command exits 0 with no SQLite/busy/lock message, "
             "integrity_check ok, every Files row and Deps edge each command must write is present, contents correct, run ids unique",
        assumptions=["gates are not placed inside IMMEDIATE transactions (mutually excluded by SQLite)", "<= 3 commands", "all scripts succeed",
                     "long-writer: an external connection holds the write lock for each listed number of seconds (all well below "
                     "redo's 60 s busy timeout) while redo-targets / redo-sources / redo-ood / redo-ifchange start: all must succeed"],
        budget_s=600 if tier == "quick" else 3000)
    return 1 if (rc0 or rc1) else 0


def replay(path):
    import json
    if json.load(open(path)).get("engine") == "env-player":
        lw = long_writer("quick")
        bad = [b for _, bs in lw for b in bs]
        for b in bad:
            print("VIOLATION-REPLAYED", b[0])
        return 1 if bad else 0
    sc = {s["name"]: s for s, _ in scenarios("thorough")}
    return e2prop.replay(PID, sc, oracle, path)
