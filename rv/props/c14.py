"""C14 -- redo-ifcreate and redo-always dependencies (engine E1; -j2 part in the E2 scenarios)."""
import json

from .. import common, e1prop, oracles, worlds
from ..e1 import executed, replay_history
from ..refmodel import FAIL

PID = "C14"


def step_check(proj, i, obs):
    op = obs["op"]
    if op[0] not in ("ifchange", "redo"):
        return []
    out = []
    out += oracles.check_runset(proj, obs)      # rebuilt iff the watched path came into existence / once per run
    out += oracles.check_content(proj, obs)
    out += oracles.check_exit(proj, obs)        # ifcreate on an existing path is an error
    m = proj.model
    ran = executed(obs["trace"])
    w = proj.w.name
    if w.startswith("always"):
        a_needed = "a" in oracles.closure_now(m, op[1])
        n = ran.count("a")
        if a_needed and obs["rc"] == 0 and n != 1:
            out.append(({"kind": "always-target-not-exactly-once", "world": w, "count": n}, {"ran": ran}))
        if not a_needed and n:
            out.append(({"kind": "always-target-ran-unneeded", "world": w}, {"ran": ran}))
        out.append(e1prop.stat("runs-needing-always-target" if a_needed else "runs-not-needing-always-target"))
    if w.startswith("ifcreate"):
        mb = obs["model_before"]
        watched = "u/x" if w == "ifcreate-under-file" else "f"
        rb = mb.seen.get("t", {}).get(watched)
        if rb and rb[0] == "c":
            out.append(e1prop.stat("builds-with-recorded-ifcreate:" + ("path-now-exists" if m.exists(watched) else "path-still-absent")))
        if (w.startswith("ifcreate-raw") or w == "ifcreate-under-file") and m.exists(watched) and "t" in ran:
            out.append(e1prop.stat("ifcreate-on-existing-path-attempts"))
            if obs["rc"] == 0:
                out.append(({"kind": "ifcreate-accepted-existing-path", "world": w}, {"ran": ran}))
    return out


def alphabet_ifc(world, h):
    ops = e1prop.std_alphabet(world, h, redo_targets=[], touch=False, rm_targets=False, dovar=False, rm_sources=["f"])
    # the watched path asked for by itself: an error while it is absent (there is no rule for it), a source once it exists
    # (not where f is a dangling link of the user's: asked for by name that is a file of theirs, watched it is "absent")
    if "f" in world.sources and not getattr(world, "symlinks", None) and sum(1 for op in h if op[0] == "ifchange" and op[1] == ["f"]) < 1:
        ops.append(["ifchange", ["f"]])
    return ops


def alphabet_under(world, h):
    """ifcreate-under-file: u/x can be created only while u is a directory, and u can become a file again only once
    u/x is gone (what a user can do at all)."""
    cur = e1prop.cur_values(world, h)
    ops = []
    for op in e1prop.std_alphabet(world, h, redo_targets=[], touch=False, rm_targets=False, dovar=False, rm_sources=["u/x"]):
        if op[0] == "edit" and op[1] == "u/x" and cur["u"] != "<dir>":
            continue
        if op[0] == "edit" and op[1] == "u" and cur["u/x"] is not None:
            continue
        ops.append(op)
    return ops


def alphabet_alw(world, h):
    return e1prop.std_alphabet(world, h, redo_targets=["d1"], touch=False, rm_targets=False, dovar=False)


def plan(tier):
    W = worlds.curated()
    q = tier == "quick"
    return [(W["ifcreate"], alphabet_ifc, 4 if q else 6), (W["ifcreate-raw"], alphabet_ifc, 4 if q else 6),
            (W["ifcreate-link"], alphabet_ifc, 4 if q else 6), (W["ifcreate-raw-dots"], alphabet_ifc, 3 if q else 5), (W["ifcreate-under-file"], alphabet_under, 4 if q else 6),
            (W["always"], alphabet_alw, 3 if q else 5), (W["always3"], alphabet_alw, 3 if q else 5)]


def e2_scenarios(tier):
    from ..e2 import scenarios as SC
    from .c07 import extra_worlds
    from ..worlds import S, World
    q = tier == "quick"
    w = extra_worlds()["always-shared"]
    w3 = World("always-fan3", {"s": ["0", "1"]},
               {"top.do": [S(deps=["d1", "d2", "d3"])], "d1.do": [S(deps=["al"])], "d2.do": [S(deps=["al"], out="file")],
                "d3.do": [S(deps=["al"])], "al.do": [S(kind="always", deps=["s"], out="file")]},
               ["top", "d1", "d2", "d3", "al"], ["top"])
    vis = SC.TOKENS + ["lock-try", "txn-begin"]
    L = [(SC.scn("always-2-dependents-j2", w, ["redo --no-log -j2 top"], visible=vis), 1 if q else 2),
         (SC.scn("always-2-dependents-rebuild-j2", w, ["redo --no-log -j2 top"], setup=[["ifchange", ["top"]]], visible=vis), 1 if q else 2)]
    # two overlapping top-level runs: each run that needs the always-target builds it exactly once -- also when the run that
    # started later gets there first, and also when another run executes a redo-always of its own in between
    w2 = World("always-two-runs", {"s": ["0", "1"], "s2": ["0", "1"]},
               {"top.do": [S(deps=["d1", "d2"], split=True)], "d1.do": [S(deps=["al"])], "d2.do": [S(deps=["al"], out="file")],
                "al.do": [S(kind="always", deps=["s"])], "other.do": [S(deps=["al"])], "a2.do": [S(kind="always", deps=["s2"], out="file")]},   # a2 shares nothing with al but the //ALWAYS pseudo file
               ["top", "d1", "d2", "al", "other", "a2"], ["top"])
    L.append((SC.scn("always-two-runs-same-target", w2, ["redo-ifchange top", "redo-ifchange other"], visible=vis, per_run=True), 1 if q else 2))
    L.append((SC.scn("always-two-runs-other-always-target", w2, ["redo-ifchange top", "redo-ifchange a2"], visible=vis, per_run=True, exactly=True), 1 if q else 2))
    if not q:
        L.append((SC.scn("always-3-dependents-j3", w3, ["redo --no-log -j3 top"], visible=vis), 2))
        L.append((SC.scn("always-3-dependents-rebuild-j2", w3, ["redo --no-log -j2 top"], setup=[["ifchange", ["top"]]], visible=vis), 2))
    return L


def e2_oracle(scn, res):
    if res["verdict"] != "done":
        return []
    out = []
    ran = [l.split(" ")[1] for l in res["trace"] if l.startswith("B ")]
    if scn.get("per_run"):
        # per run id: a run that executed a dependent of the always-target executed the always-target exactly once
        from collections import Counter
        per = Counter(tuple(l.split(" ")[1:3]) for l in res["trace"] if l.startswith("B "))
        runs = {r for (_t, r) in per}
        seq = [l.split(" ")[2] for l in res["trace"] if l.startswith("B al ")]   # runs that executed al, in order
        for r in sorted(runs):
            needs = any(per.get((d, r)) for d in ("d1", "d2", "other"))
            n = per.get(("al", r), 0)
            # exactly once -- except that a run which finds that a FOREIGN run rebuilt the target after it did builds it again
            # (it cannot know what the other run built it from); two builds by one run with no foreign build in between are one too many
            idx = [i for i, x in enumerate(seq) if x == r]
            unprovoked = [j for a, j in zip(idx, idx[1:]) if j == a + 1]
            # (when both runs build the SAME always-target, a second build by the earlier run can also be provoked by the later
            # run having been the first to stamp one of its sources -- run ids order "changed after" across overlapping runs
            # only conservatively; that interplay is outside this property's quantifier, so only "at least once" is judged there)
            if needs and (n < 1 or (unprovoked and scn.get("exactly"))):
                out.append(({"kind": "always-target-not-exactly-once", "scenario": scn["name"], "count": n}, {"trace": res["trace"], "run": r}))
    elif ran.count("al") != 1:
        out.append(({"kind": "always-target-not-exactly-once", "scenario": scn["name"], "count": ran.count("al")}, {"ran": ran}))
    if any(rc != 0 for rc in res["roots"].values()):
        out.append(({"kind": "build-failed", "scenario": scn["name"]}, {"roots": res["roots"]}))
    return out


def main(tier):
    import json as _json
    from .. import e2prop
    rc1 = main_e1(tier)
    ev = _json.load(open(common.EVIDENCE_DIR / "C14.json"))
    rc2 = e2prop.run_property(
        PID, tier, e2_scenarios(tier), e2_oracle,
        rule=ev["coverage"]["rule"] + " Parallel part (E2): a redo-always target with 2-3 dependents requested concurrently at "
        "-j2/-j3, first build and rebuild, every schedule with <= b deviations (quick 1, thorough 2): its script starts exactly once.",
        assumptions=ev["assumptions"], budget_s=600 if tier == "quick" else 3000,
        extra={"e1": {k: ev["coverage"][k] for k in ("states", "transitions", "traces_validated_against_impl", "worlds",
                                                    "oracle_counters", "distinct_observed_outcomes")},
               "e1_violations": ev.get("violations", 0)})
    return 1 if (rc1 or rc2) else 0


def main_e1(tier):
    return e1prop.run_property(
        PID, tier, plan(tier), "rv.props.c14",
        rule="BFS over histories <= d (quick 3-4, thorough 5-6) of {redo-ifchange t, create f, delete f, edit f, edit unrelated u} "
             "on worlds where t declares redo-ifcreate f when f is absent and redo-ifchange f when present (and one where it "
             "declares redo-ifcreate unconditionally), and of {redo-ifchange top/d1/other, redo d1, edit s} on worlds with a "
             "redo-always target with 2 and 3 dependents; oracle: executed set == reference (t re-runs iff f came into "
             "existence or changed once tracked, never because of u; always-target exactly once in every run that needs it, zero "
             "times otherwise), ifcreate of an existing path fails the command, contents after exit 0",
        assumptions=["-j1, REDO_LOG=0 (the -j2 'exactly once' part is explored by E2 scenario always-j2)", "flat worlds"],
        budget_s=900 if tier == "quick" else 6000)


def replay(path):
    doc = json.load(open(path))
    if doc.get("engine") == "E2":
        from .. import e2prop
        sc = {s["name"]: s for s, _ in e2_scenarios("thorough")}
        return e2prop.replay(PID, sc, e2_oracle, path)
    W = dict(worlds.curated())
    bindir = common.build_subject()
    key, viols, summ = replay_history(W[doc["world"]], doc["history"], step_check, bindir=bindir)
    common.cleanup_scratch()
    bad = [(i, s, d) for i, s, d in viols if s.get("kind") != "__stat__"]
    for s in summ:
        print(s)
    for v in bad:
        print("VIOLATION-REPLAYED", v)
    return 1 if bad else 0
