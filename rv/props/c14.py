"""C14 -- redo-ifcreate and redo-always dependencies (engine E1; -j2 part in the E2 scenarios)."""
import json

from .. import common, e1prop, oracles, worlds
from ..e1 import executed, replay_history
from ..refmodel import FAIL

PID = "C14"


def step_check(proj, i, obs):
    op = obs["op"]
    if op[0] not in ("ifchange", "redo"):
        return []
    out = []
    out += oracles.check_runset(proj, obs)      # rebuilt iff the watched path came into existence / once per run
    out += oracles.check_content(proj, obs)
    out += oracles.check_exit(proj, obs)        # ifcreate on an existing path is an error
    m = proj.model
    ran = executed(obs["trace"])
    w = proj.w.name
    if w.startswith("always"):
        a_needed = "a" in oracles.closure_now(m, op[1])
        n = ran.count("a")
        if a_needed and obs["rc"] == 0 and n != 1:
            out.append(({"kind": "always-target-not-exactly-once", "world": w, "count": n}, {"ran": ran}))
        if not a_needed and n:
            out.append(({"kind": "always-target-ran-unneeded", "world": w}, {"ran": ran}))
        out.append(e1prop.stat("runs-needing-always-target" if a_needed else "runs-not-needing-always-target"))
    if w.startswith("ifcreate"):
        mb = obs["model_before"]
        rb = mb.seen.get("t", {}).get("f")
        if rb and rb[0] == "c":
            out.append(e1prop.stat("builds-with-recorded-ifcreate:" + ("path-now-exists" if m.exists("f") else "path-still-absent")))
        if w == "ifcreate-raw" and m.exists("f") and "t" in ran:
            out.append(e1prop.stat("ifcreate-on-existing-path-attempts"))
            if obs["rc"] == 0:
                out.append(({"kind": "ifcreate-accepted-existing-path", "world": w}, {"ran": ran}))
    return out


def alphabet_ifc(world, h):
    return e1prop.std_alphabet(world, h, redo_targets=[], touch=False, rm_targets=False, dovar=False, rm_sources=["f"])


def alphabet_alw(world, h):
    return e1prop.std_alphabet(world, h, redo_targets=["d1"], touch=False, rm_targets=False, dovar=False)


def plan(tier):
    W = worlds.curated()
    q = tier == "quick"
    return [(W["ifcreate"], alphabet_ifc, 4 if q else 6), (W["ifcreate-raw"], alphabet_ifc, 4 if q else 6),
            (W["always"], alphabet_alw, 3 if q else 5), (W["always3"], alphabet_alw, 3 if q else 5)]


def main(tier):
    return e1prop.run_property(
        PID, tier, plan(tier), "rv.props.c14",
        rule="BFS over histories <= d (quick 3-4, thorough 5-6) of {redo-ifchange t, create f, delete f, edit f, edit unrelated u} "
             "on worlds where t declares redo-ifcreate f when f is absent and redo-ifchange f when present (and one where it "
             "declares redo-ifcreate unconditionally), and of {redo-ifchange top/d1/other, redo d1, edit s} on worlds with a "
             "redo-always target with 2 and 3 dependents; oracle: executed set == reference (t re-runs iff f came into "
             "existence or changed once tracked, never because of u; always-target exactly once in every run that needs it, zero "
             "times otherwise), ifcreate of an existing path fails the command, contents after exit 0",
        assumptions=["-j1, REDO_LOG=0 (the -j2 'exactly once' part is explored by E2 scenario always-j2)", "flat worlds"],
        budget_s=900 if tier == "quick" else 6000)


def replay(path):
    doc = json.load(open(path))
    W = dict(worlds.curated())
    bindir = common.build_subject()
    key, viols, summ = replay_history(W[doc["world"]], doc["history"], step_check, bindir=bindir)
    common.cleanup_scratch()
    bad = [(i, s, d) for i, s, d in viols if s.get("kind") != "__stat__"]
    for s in summ:
        print(s)
    for v in bad:
        print("VIOLATION-REPLAYED", v)
    return 1 if bad else 0
