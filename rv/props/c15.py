"""C15 -- every spelling of a path denotes the same target.

This module holds the E4 part (direct enumeration of redo::normpath / relpath / realdirpath against
an independent reference and against the kernel).  The end-to-end part (spellings on one command
line, E1/E2) is plugged in through `extra_checks`.

E4 oracles
  N1  normpath(x) == ref_clean(x)                       (reference: rv/e4.py, Pike's four rules)
  N2  normpath(normpath(x)) == normpath(x)
  N3  kernel ground truth, in a real directory tree WITHOUT symlinks (entered with chroot(2) when
      permitted so that rooted strings are meaningful): whenever stat(x) succeeds,
      stat(normpath(x)) succeeds with the same (st_dev, st_ino)
  R1  in a real tree WITH directory symlinks: joining relpath(t, base) onto base reaches the same
      directory entry as t (lstat identity; for a not-yet-existing t: identity of the parent
      directory and the final name)
  R2  realdirpath(t) names the same entry as t (lstat: a final symlink is kept) and its directory
      part is free of symlinks
"""
import json
import os
import shutil
import time

from .. import common, e4
from ..common import MachineryError

PID = "C15"


# ---------------------------------------------------------------------------
# hook for the end-to-end part

E2E_SCRIPT = 'echo "B $1 $REDO_RUNID" >> "$RV_TRACE"\nredo-ifchange src\nprintf "built(%s)\\n" "$(cat src)"\n'


def e2e_cases(tier):
    """(target relative to project root, cwd relative to project root, [spellings valid from that cwd])"""
    cases = []
    # target x at the project root, seen from the root and from d/
    cases.append(("x", "", ["x", "./x", "d/../x", "{P}/x", ".//x", "ld/../x", "d/./../x", "/{P}/x"]))   # "/{P}/x": absolute with a doubled leading slash
    cases.append(("x", "d", ["../x", "./../x", "{P}/x", "..//x", "../d/../x", "e/../../x"]))
    # target d/y (inside a directory that also has a symlinked name ld -> d)
    cases.append(("d/y", "", ["d/y", "./d/y", "ld/y", "{P}/d/y", "{P}/ld/y", "d//y", "d/e/../y", "/{P}/d/y"]))
    # lp: a symbolic link BESIDE the project directory that points to it (../lp/x is x)
    cases.append(("x", "", ["x", "../lp/x", "{P}/../lp/x"]))
    if tier != "quick":
        cases.append(("x", "d", ["../x", "../../lp/x", "../../lp/d/../x"]))
        cases.append(("d/y", "d", ["y", "./y", "../d/y", "../ld/y", "{P}/d/y", "e/../y"]))
        cases.append(("d/y", "ld", ["y", "../d/y", "../ld/y"]))
    return cases


def run_e2e(job):
    root, bindir, target, cwd_rel, s1, s2, mode, idx = job
    import sqlite3
    top = os.path.join(root, "e%d" % idx)
    P = os.path.join(top, "p")
    res = {"target": target, "cwd": cwd_rel, "spellings": [s1, s2], "mode": mode, "violations": []}
    try:
        os.makedirs(P + "/d/e")
        os.makedirs(top + "/home")
        os.symlink("d", P + "/ld")
        os.symlink("p", top + "/lp")
        Pr = os.path.realpath(P)
        with open(P + "/src", "w") as fh:
            fh.write("1\n")
        tdir = os.path.dirname(target)
        with open(os.path.join(P, tdir, os.path.basename(target) + ".do"), "w") as fh:
            fh.write(E2E_SCRIPT.replace("redo-ifchange src", "redo-ifchange %ssrc" % ("../" if tdir else "")).replace(
                '$(cat src)', '$(cat %ssrc)' % ("../" if tdir else "")))
        os.makedirs(P + "/.redo")   # pins the project root regardless of the spellings' common prefix
        trace = top + "/trace"
        open(trace, "w").close()
        env = common.base_env(bindir, top + "/home")
        env["REDO_LOG"] = "0"
        env["RV_TRACE"] = trace
        a1, a2 = s1.replace("{P}", Pr), s2.replace("{P}", Pr)
        argv = {"ifchange": ["redo-ifchange", a1, a2], "redo-j1": ["redo", "--no-log", a1, a2],
                "redo-j2": ["redo", "--no-log", "-j2", a1, a2]}[mode]
        cwd = os.path.join(P, cwd_rel) if cwd_rel else P
        rc, out, err = common.run_cmd(argv, cwd, env, timeout=60)
        res["rc"] = rc

        def viol(kind, **kw):
            res["violations"].append(dict(kind=kind, **kw))
        if rc == -999:
            viol("e2e-hang")
            return res
        if rc != 0:
            viol("e2e-command-failed", rc=rc, stderr=err[-400:])
        n = sum(1 for l in open(trace) if l.startswith("B "))
        if n != 1:
            viol("e2e-built-%d-times" % n, stderr=err[-300:])
        tfile = os.path.join(P, target)
        if rc == 0 and (not os.path.isfile(tfile) or open(tfile).read() != "built(1)\n"):
            viol("e2e-wrong-content")
        db = os.path.join(P, ".redo", "db.sqlite3")
        if os.path.exists(db):
            con = sqlite3.connect(db)
            names = [r[0] for r in con.execute("select name from Files")]
            con.close()
            same = [nm for nm in names if not nm.startswith("//") and
                    os.path.realpath(os.path.join(os.path.dirname(os.path.join(Pr, nm)) or Pr)) + "/" + os.path.basename(nm)
                    == os.path.realpath(os.path.dirname(os.path.join(Pr, target))) + "/" + os.path.basename(target)]
            if same != [target]:
                viol("e2e-records-for-one-file", names=same)
        else:
            viol("e2e-no-database")
        return res
    finally:
        shutil.rmtree(top, ignore_errors=True)


FIRST_CMDS = [   # (cwd of the first-ever command, its spelling of x, cwd of the second command, its spelling)
    ("d", "../x", "", "x"), ("d/e", "../../x", "", "./x"), ("", "x", "d", "../x"), ("d", "{P}/x", "", "x"),
    ("d", "../x", "d/e", "../../x"), ("ld", "../x", "", "x"),
    # "@lk": a working directory entered through a symbolic link that lies OUTSIDE the project and points to p/d, with the
    # shell's logical $PWD (the path through the link) exported, as every POSIX shell does
    ("", "x", "@lk", "../x"), ("@lk", "../x", "", "x"), ("@lk", "../x", "@lk", "../x"),
]


def run_first(job):
    """Two commands in a row on a project that has no .redo yet, the first one issued from a subdirectory: the place of
    the database must not depend on how the first command spelled its target."""
    root, bindir, cwd1, s1, cwd2, s2, idx = job
    import sqlite3
    top = os.path.join(root, "f%d" % idx)
    P = os.path.join(top, "p")
    res = {"case": [cwd1, s1, cwd2, s2], "violations": []}
    try:
        os.makedirs(P + "/d/e")
        os.makedirs(top + "/home")
        os.symlink("d", P + "/ld")
        Pr = os.path.realpath(P)
        with open(P + "/src", "w") as fh:
            fh.write("1\n")
        with open(P + "/x.do", "w") as fh:
            fh.write(E2E_SCRIPT)
        trace = top + "/trace"
        open(trace, "w").close()
        env = common.base_env(bindir, top + "/home")
        env["REDO_LOG"] = "0"
        env["RV_TRACE"] = trace
        errs = []
        os.symlink("p/d", top + "/lk")
        for cwd_rel, sp in ((cwd1, s1), (cwd2, s2)):
            cwd = top + "/lk" if cwd_rel == "@lk" else (os.path.join(P, cwd_rel) if cwd_rel else P)
            env["PWD"] = cwd          # the logical path, as the shell exports it
            rc, out, err = common.run_cmd(["redo-ifchange", sp.replace("{P}", Pr)], cwd, env, timeout=60)
            errs.append(err[-300:])
            if rc != 0:
                res["violations"].append(dict(kind="first-command-failed", rc=rc, stderr=err[-300:]))
        n = sum(1 for l in open(trace) if l.startswith("B "))
        if n != 1:
            res["violations"].append(dict(kind="first-commands-built-%d-times" % n, stderr=errs))
        dbs = sorted(os.path.relpath(os.path.join(dp, ".redo"), P) for dp, dn, fn in os.walk(P) if ".redo" in dn)
        if dbs != [".redo"]:
            res["violations"].append(dict(kind="first-command-put-the-database-elsewhere", where=dbs))
        if any("not redoing" in e or "you modified" in e for e in errs):
            res["violations"].append(dict(kind="own-output-taken-for-a-source", stderr=errs))
        return res
    finally:
        shutil.rmtree(top, ignore_errors=True)


# scripts that change directory before they ask for a dependency: (directory of x and x.do, argument of the script's `cd`,
# how the script then spells the root-level target y)
CD_CASES = [
    ("", ".", "y"), ("", "d", "../y"), ("", "d/e", "../../y"), ("", "ld", "../y"), ("", "ld/e", "../../y"), ("", "d", "{P}/y"),
    ("", "d", "..//y"), ("d", ".", "../y"), ("d", "..", "y"), ("d", "..", "./y"), ("d", "e", "../../y"), ("d", "../ld/e", "../../y"),
    ("d", "e", "{P}/ld/../y"),
]


def run_cd(job):
    """x.do changes directory and then asks for y under some spelling; y needs z (checksummed, reads zin) and ysrc.  Build,
    edit one input, `redo x` again: the request made from the other directory must reach the one and only y -- through the
    direct path (ysrc edited: y is dirty) and through the out-of-band path (zin edited: y itself is up to date, its
    checksummed dependency is uncertain, the names travel through redo-unlocked)."""
    root, bindir, xdir, cdarg, ysp, edited, idx = job
    import sqlite3
    top = os.path.join(root, "c%d" % idx)
    P = os.path.join(top, "p")
    res = {"case": [xdir, cdarg, ysp, edited], "violations": []}
    try:
        os.makedirs(P + "/d/e")
        os.makedirs(top + "/home")
        os.makedirs(P + "/.redo")
        os.symlink("d", P + "/ld")
        Pr = os.path.realpath(P)
        for n, v in (("zin", "1"), ("ysrc", "1")):
            with open(os.path.join(P, n), "w") as fh:
                fh.write(v + "\n")
        tr = 'echo "B $1 $REDO_RUNID" >> "$RV_TRACE"\n'
        with open(P + "/z.do", "w") as fh:
            fh.write(tr + 'redo-ifchange zin\nprintf "z(%s)\\n" "$(cat zin)" > "$3"\nredo-stamp < "$3"\n')
        with open(P + "/y.do", "w") as fh:
            fh.write(tr + 'redo-ifchange z ysrc\nprintf "y(%s%s)\\n" "$(cat z)" "$(cat ysrc)"\n')
        up = "../" if xdir else ""
        with open(os.path.join(P, xdir, "x.do"), "w") as fh:
            fh.write(tr + 'here=$PWD\ncd "%s" || exit 3\nredo-ifchange "%s" || exit 4\ncd "$here"\nprintf "x(%%s)\\n" "$(cat %sy)"\n'
                     % (cdarg, ysp.replace("{P}", Pr), up))
        trace = top + "/trace"
        open(trace, "w").close()
        env = common.base_env(bindir, top + "/home")
        env["REDO_LOG"] = "0"
        env["RV_TRACE"] = trace
        xt = os.path.join(xdir, "x") if xdir else "x"

        def viol(kind, **kw):
            res["violations"].append(dict(kind=kind, **kw))
        rc, out, err = common.run_cmd(["redo", "--no-log", xt], P, env, timeout=60)
        if rc != 0:
            viol("cd-script-first-build-failed", rc=rc, stderr=err[-400:])
            return res
        n0 = sum(1 for l in open(trace))
        st = os.stat(os.path.join(P, edited))
        with open(os.path.join(P, edited), "w") as fh:
            fh.write("22\n")
        os.utime(os.path.join(P, edited), (st.st_mtime + 5, st.st_mtime + 5))
        rc, out, err = common.run_cmd(["redo", "--no-log", xt], P, env, timeout=60)
        if rc == -999:
            viol("cd-script-hang")
            return res
        if rc != 0:
            viol("cd-script-rebuild-failed", rc=rc, stderr=err[-400:])
        ran = sorted(l.split(" ")[1] for l in list(open(trace))[n0:] if l.startswith("B "))
        want_ran = sorted(["x", "y", "z"] if edited == "zin" else ["x", "y"])
        if ran != want_ran:
            viol("cd-script-ran-%s" % ",".join(ran), want=want_ran, stderr=err[-300:])
        vals = {"zin": "1", "ysrc": "1"}
        vals[edited] = "22"
        want = "x(y(z(%s)%s))\n" % (vals["zin"], vals["ysrc"])
        try:
            got = open(os.path.join(P, xt)).read()
        except OSError:
            got = None
        if rc == 0 and got != want:
            viol("cd-script-stale-content", got=got, want=want)
        con = sqlite3.connect(os.path.join(P, ".redo", "db.sqlite3"))
        names = [r[0] for r in con.execute("select name from Files")]
        con.close()
        stray = sorted(nm for nm in names if os.path.basename(nm) in ("y", "z", "zin", "ysrc", "y.do", "z.do") and "/" in nm)
        if stray:
            viol("cd-script-records-under-other-names", names=stray)
        extra_files = sorted(os.path.relpath(os.path.join(dp, f), P) for dp, dn, fn in os.walk(P) if ".redo" not in dp
                             for f in fn if f in ("y", "z") and dp != P)
        if extra_files:
            viol("cd-script-built-other-files", files=extra_files)
        return res
    finally:
        shutil.rmtree(top, ignore_errors=True)


def extra_checks(tier, verdict, cov):
    """End-to-end: every ordered pair of spellings of one file on one command line, from several working directories,
    with redo-ifchange, redo and redo -j2: exit 0, the script ran once, exactly one Files row (hence one lock) names it."""
    import concurrent.futures
    bindir = str(common.build_subject())
    root = str(common.scratch_root() / "c15e2e")
    os.makedirs(root, exist_ok=True)
    jobs = []
    idx = 0
    modes = ["ifchange", "redo-j2"] if tier == "quick" else ["ifchange", "redo-j1", "redo-j2"]
    for target, cwd_rel, sp in e2e_cases(tier):
        for s1 in sp:
            for s2 in sp:
                for mode in modes:
                    jobs.append((root, bindir, target, cwd_rel, s1, s2, mode, idx))
                    idx += 1
    bad = []
    with concurrent.futures.ProcessPoolExecutor(max_workers=min(16, max(1, common.NCPU))) as ex:
        for r in ex.map(run_e2e, jobs, chunksize=4):
            for v in r["violations"]:
                bad.append((r, v))
    seen = set()
    for r, v in sorted(bad, key=lambda rv: (len(rv[0]["spellings"][0]) + len(rv[0]["spellings"][1]), rv[0]["mode"])):
        sig = {"kind": v["kind"], "mode": r["mode"], "same_spelling_twice": r["spellings"][0] == r["spellings"][1]}
        key = json.dumps(sig, sort_keys=True)
        if key in seen:
            continue
        seen.add(key)
        if len(seen) <= 8:
            verdict.report(sig, {"engine": "E1-e2e", "check": "e2e", "target": r["target"], "cwd": r["cwd"],
                                 "spellings": r["spellings"], "mode": r["mode"], "violation": v})
    fjobs = [(root, bindir, c1, s1, c2, s2, i) for i, (c1, s1, c2, s2) in enumerate(FIRST_CMDS)]
    with concurrent.futures.ProcessPoolExecutor(max_workers=min(8, max(1, common.NCPU))) as ex:
        for r in ex.map(run_first, fjobs):
            for v in r["violations"]:
                sig = {"kind": v["kind"], "first_cwd": r["case"][0], "first_spelling": r["case"][1]}
                verdict.report(sig, {"engine": "E1-e2e", "check": "first-commands", "case": r["case"], "violation": v})
                bad.append((r, v))
    cjobs = [(root, bindir, xd, cdarg, ysp, ed, i) for i, (xd, cdarg, ysp, ed) in
             enumerate((xd, cdarg, ysp, ed) for (xd, cdarg, ysp) in CD_CASES for ed in ("zin", "ysrc"))]
    with concurrent.futures.ProcessPoolExecutor(max_workers=min(16, max(1, common.NCPU))) as ex:
        for r in ex.map(run_cd, cjobs):
            for v in r["violations"]:
                sig = {"kind": v["kind"], "edited": r["case"][3], "control": r["case"][1] == "."}
                verdict.report(sig, {"engine": "E1-e2e", "check": "cd-scripts", "case": r["case"], "violation": v})
                bad.append((r, v))
    cov["scripts_that_change_directory"] = {"cases": CD_CASES, "edits": ["zin (out-of-band path)", "ysrc (direct path)"]}
    cov["evaluations"] += len(cjobs)
    cov["first_commands"] = {"cases": FIRST_CMDS}
    cov["evaluations"] += len(fjobs)
    cov["end_to_end"] = {"command_lines": len(jobs), "cases": [(t, c, len(sp)) for t, c, sp in e2e_cases(tier)], "modes": modes,
                         "violating": len(bad)}
    cov["evaluations"] += len(jobs)
    cov["distinct_nontrivial"] += sum(1 for j in jobs if j[4] != j[5])
    return bad


# ---------------------------------------------------------------------------
# domains

ALPHA = ["a", "b", ".", "/"]
COMPONENTS = ["", ".", "..", "a", "bb"]


def normpath_domain(tier):
    n = 6 if tier == "quick" else 8
    dom = list(e4.strings_over(ALPHA, n))
    n_strings = len(dom)
    n_comp = 0
    if tier == "thorough":
        seen = set(dom)
        for s in e4.component_paths(COMPONENTS, 6):
            n_comp += 1
            if s not in seen:
                seen.add(s)
                dom.append(s)
    return dom, n_strings, n_comp


# ---------------------------------------------------------------------------
# N3: the symlink-free tree and the kernel comparison

def _names(maxlen):
    out = []
    for s in e4.strings_over(["a", "b", "."], maxlen):
        if s not in ("", ".", ".."):
            out.append(s)
    return out


def build_plain_tree(root):
    """Directories only, no symlinks.  Children of a directory at depth k: every name of length <= 3
    over {a,b,.} (k = 0), length <= 2 (k = 1, 2), {a, b} (k = 3); plus the full {a, bb} tree of depth 6
    below the root and below /a/b (for the component family).  Returns the number of directories."""
    n = 0
    os.makedirs(root)
    level = [root]
    for k in range(4):
        names = _names(3) if k == 0 else _names(2) if k <= 2 else ["a", "b"]
        nxt = []
        for d in level:
            for nm in names:
                p = d + "/" + nm
                os.mkdir(p)
                n += 1
                nxt.append(p)
        level = nxt
    for top in (root, root + "/a/b"):
        level = [top]
        for k in range(6):
            nxt = []
            for d in level:
                for nm in ("a", "bb"):
                    p = d + "/" + nm
                    if not os.path.isdir(p):
                        os.mkdir(p)
                        n += 1
                    nxt.append(p)
            level = nxt
    return n


KERNEL_CWDS = ["/", "/a/b"]


def kernel_compare(tree, pairs):
    """pairs: list of (x, normpath(x)).  In a forked child: chroot into the tree (fallback: chdir only),
    and for each cwd and pair compare stat identities.  Returns dict(mode, stat_ok, changed_ok, bad)."""
    r, w = os.pipe()
    pid = os.fork()
    if pid == 0:
        try:
            os.close(r)
            mode = "chroot"
            try:
                os.chroot(tree)
                prefix = ""
            except OSError:
                mode = "chdir-only"
                prefix = tree
            res = {"mode": mode, "stat_ok": 0, "changed_ok": 0, "bad": [], "per_cwd": {}}
            for cwd in KERNEL_CWDS:
                os.chdir(prefix + cwd)
                ok = 0
                for x, nx in pairs:
                    if x == "":
                        continue          # stat("") is ENOENT by definition; "" is not a path
                    a = e4.stat_id(x)
                    if a is None:
                        continue
                    ok += 1
                    if x != nx:
                        res["changed_ok"] += 1
                    b = e4.stat_id(nx)
                    if a != b:
                        res["bad"].append({"cwd": cwd, "input": x, "normpath": nx, "stat_x": a, "stat_norm": b})
                res["stat_ok"] += ok
                res["per_cwd"][cwd] = ok
            os.write(w, json.dumps(res).encode())
            os.close(w)
        finally:
            os._exit(0)
    os.close(w)
    buf = b""
    while True:
        chunk = os.read(r, 1 << 16)
        if not chunk:
            break
        buf += chunk
    os.close(r)
    os.waitpid(pid, 0)
    if not buf:
        raise MachineryError("kernel comparison child produced no result")
    return json.loads(buf)


def check_normpath(tier, verdict, cov, scratch):
    dom, n_strings, n_comp = normpath_domain(tier)
    ans = e4.run_harness("normpath", [(x,) for x in dom])
    got = [e4.ans_str(a) for a in ans]
    bad_ref = []
    changed = 0
    outputs = set()
    for x, g in zip(dom, got):
        want = e4.ref_clean(x)
        if g != want:
            bad_ref.append((x, g, want))
        if g != x:
            changed += 1
        outputs.add(g)
    for x, g, want in e4.shortest(bad_ref, 20, key=lambda t: t[0]):
        verdict.report({"kind": "normpath-mismatch", "input": x},
                       {"engine": "E4", "check": "normpath", "input": x, "redo": g, "reference": want})
    # N2 idempotence, on every distinct output
    outs = sorted(outputs)
    again = [e4.ans_str(a) for a in e4.run_harness("normpath", [(x,) for x in outs])]
    bad_idem = [(o, g2) for o, g2 in zip(outs, again) if o != g2]
    inv = {}
    for x, g in zip(dom, got):
        if g not in inv or len(x) < len(inv[g]):
            inv[g] = x
    for o, g2 in e4.shortest(bad_idem, 20, key=lambda t: inv[t[0]]):
        verdict.report({"kind": "normpath-not-idempotent", "input": inv[o]},
                       {"engine": "E4", "check": "idempotence", "input": inv[o], "once": o, "twice": g2})
    # N3 kernel
    tree = str(scratch / "plain")
    ndirs = build_plain_tree(tree)
    kr = kernel_compare(tree, [(x, g) for x, g in zip(dom, got) if not g.startswith(("PANIC:", "ERR:"))])
    for b in e4.shortest(kr["bad"], 20, key=lambda d: d["input"]):
        verdict.report({"kind": "normpath-changes-file", "input": b["input"], "cwd": b["cwd"]},
                       {"engine": "E4", "check": "kernel", **b})
    cov["normpath"] = {
        "inputs": len(dom), "strings_over_ab./": n_strings, "component_sequences": n_comp,
        "changed_by_normpath": changed, "distinct_outputs": len(outputs),
        "mismatch_vs_reference": len(bad_ref), "not_idempotent": len(bad_idem),
        "kernel_mode": kr["mode"], "kernel_tree_dirs": ndirs, "kernel_cwds": KERNEL_CWDS,
        "kernel_stat_succeeded": kr["stat_ok"], "kernel_stat_succeeded_and_changed": kr["changed_ok"],
        "kernel_per_cwd": kr["per_cwd"], "kernel_mismatch": len(kr["bad"]),
    }
    samples = []
    domset = set(dom)
    for x in ("a//./b", "/../a/", "a/../..", "...//a", ".a/../", "../a/../../b"):
        if x in domset:
            samples.append({"fn": "normpath", "input": x, "redo": got[dom.index(x)], "reference": e4.ref_clean(x)})
    cov["samples"] += samples
    cov["evaluations"] += len(dom) + len(outs) + kr["stat_ok"]
    cov["distinct_nontrivial"] += changed
    return kr["mode"]


# ---------------------------------------------------------------------------
# R1 / R2: tree with symlinks

def build_link_tree(P):
    """P/d/x, P/d/e/f (files); P/q, P/d/e/g (dirs); symlinks: ld -> d, d/le -> e, d/e/lf -> f (file),
    labs -> <abs>/d/e, lq2 -> d/e (points two levels down), q/lup -> ../d."""
    os.makedirs(P + "/d/e/g")
    os.makedirs(P + "/q")
    os.makedirs(P + "/d-x")
    os.makedirs(P + "/dd")
    os.makedirs(P + "/d/e-x")
    os.makedirs(P + "2")          # a sibling of the tree root whose name extends the root's name ("p" -> "p2")
    for f in ("/d/x", "/d/e/f", "/top", "/d-x/y", "/dd/y", "/d/e-x/y", "2/y"):
        with open(P + f, "w") as fh:
            fh.write("x\n")
    os.symlink("d", P + "/ld")
    os.symlink("e", P + "/d/le")
    os.symlink("f", P + "/d/e/lf")
    os.symlink(P + "/d/e", P + "/labs")
    os.symlink("d/e", P + "/lq2")
    os.symlink("../d", P + "/q/lup")


# spellings of locations, relative to P
T_SPECS = [
    "top", "./top", "d/x", "d//x", "d/./x", "d/e/../x", "q/../d/x", "ld/x", "q/lup/x", "d/e/f", "ld/e/f", "d/le/f",
    "ld/le/f", "labs/f", "lq2/f", "lq2/../x", "d/e/lf", "ld/le/lf", "d/le", "ld", "lq2", "d/e", "d/e/", "ld/", "d/e/g/..",
    "d/e/.", "d/new", "ld/le/new", "nodir/new", "nodir/../d/x", "d/e/g/../../x", ".", "", "d/..", "q/lup/e/f",
    "d/e/f/", "top/..",
    # siblings whose names merely *extend* a base directory's name (string prefix, not a path prefix)
    "d-x/y", "dd/y", "d/e-x/y", "d-x", "../p2/y", "d-x/new",
    # a target in a directory that does not exist YET (its script will create it), below a symbolic link: what the name
    # resolves to must not depend on whether that directory exists already
    "ld/nd/x", "lq2/nd/x", "labs/nd/sub/x", "q/lup/nd/x", "d/nd/x",
]
CWDS = ["", "d", "d/e", "ld", "q", "lq2"]           # relative to P; "ld"/"lq2" are entered through the symlink
PHYS_DEPTH = {"": 0, "d": 1, "d/e": 2, "ld": 1, "q": 1, "lq2": 2}
BASE_SPECS = ["{P}", "{P}/d", "{P}/d/e", "{P}/q", "{P}/ld/e", "{P}/d//e/", "{P}/d/e/..", "{P}/d/e/g", "/",
              "{P}/nodir", "{P}/q/lup/e",
              # bases whose FINAL component is a directory symlink
              "{P}/ld", "{P}/d/le", "{P}/lq2", "{P}/labs"]


def spellings_for(cwd_rel, P):
    up = "../" * PHYS_DEPTH[cwd_rel]
    out = []
    for s in T_SPECS:
        out.append(("abs:" + s, P + "/" + s))
        if s != "":
            out.append(("rel:" + s, up + s))
    out.append(("rel:", ""))   # the empty string itself
    return out


def join(base, rel):
    if rel == "":
        return base
    if base.endswith("/"):
        return base + rel
    return base + "/" + rel


def entry(path):
    """(lstat identity or None, parent stat identity or None, final name)."""
    d, n = os.path.split(path)
    return e4.lstat_id(path), e4.stat_id(d if d else "."), n


def base_final_is_symlink(base):
    b = base.rstrip("/") or "/"
    return os.path.islink(b)


def judge_relpath(cwd_abs, t, base, ans):
    """Returns (status, detail): status in ok / noclaim / bad."""
    os.chdir(cwd_abs)
    lid_t, par_t, name_t = entry(t if t != "" else ".")
    if "panic" in ans:
        return "bad", {"why": "panic", "msg": ans["panic"]}
    if "err" in ans:
        if lid_t is not None:
            return "bad", {"why": "error although t exists", "msg": ans["err"]}
        return "noclaim", None
    rel = ans["ok"]
    if e4.stat_id(base) is None:
        return "noclaim", None            # a base that is not an existing directory: nothing to ask the kernel
    j = join(base, rel)
    lid_j, par_j, name_j = entry(j)
    if rel in ("", "."):
        # "base itself": base is used as a directory, so it is the directory it denotes (symlink followed),
        # not the directory entry that happens to spell it
        lid_j = e4.stat_id(base)
    if lid_t is not None:
        if lid_j != lid_t:
            return "bad", {"why": "joined path is a different entry", "rel": rel, "joined": j, "lstat_t": lid_t,
                           "lstat_joined": lid_j}
        return "ok", None
    # t does not exist: compare where it would be created
    if name_t in ("", ".", "..") or par_t is None:
        return "noclaim", None
    if par_j != par_t or name_j != name_t:
        return "bad", {"why": "joined path would be created elsewhere", "rel": rel, "joined": j, "parent_t": par_t,
                       "parent_joined": par_j, "name_t": name_t, "name_joined": name_j}
    return "ok", None


def ref_resolve(path_abs):
    """where a not-yet-existing path will be: the longest existing directory prefix resolved physically, the rest as written"""
    d, n = os.path.split(e4.ref_clean(path_abs))
    rest = []
    while d not in ("", "/") and not os.path.isdir(d):
        d, c = os.path.split(d)
        rest.append(c)
    return os.path.join(os.path.realpath(d or "/"), *reversed(rest), n)


def judge_realdirpath(cwd_abs, t, ans):
    os.chdir(cwd_abs)
    lid_t, par_t, name_t = entry(t if t != "" else ".")
    if "ok" in ans and lid_t is None and par_t is None and t and not t.endswith("/") and "/nd/" in t:
        # the directory does not exist yet: the answer must be what it will be once the directory exists
        want = ref_resolve(t if os.path.isabs(t) else os.path.join(cwd_abs_phys(cwd_abs), t))
        got = e4.ref_clean(os.path.join(cwd_abs_phys(cwd_abs), ans["ok"]))
        if got != want:
            return "bad", {"why": "a path below a not-yet-existing directory is not resolved through the symlinks above it",
                           "result": ans["ok"], "expected": want}
        return "ok", None
    if "panic" in ans:
        return "bad", {"why": "panic", "msg": ans["panic"]}
    if "err" in ans:
        if lid_t is not None:
            return "bad", {"why": "error although t exists", "msg": ans["err"]}
        return "noclaim", None
    r = ans["ok"]
    if t == "":
        return "noclaim", None
    lid_r, par_r, name_r = entry(r)
    if lid_t is not None and lid_r != lid_t:
        return "bad", {"why": "result is a different entry (lstat)", "result": r, "lstat_t": lid_t, "lstat_result": lid_r}
    if lid_t is None:
        if par_t is None or name_t in ("", ".", ".."):
            return "noclaim", None
        if par_r != par_t or name_r != name_t:
            return "bad", {"why": "result would be created elsewhere", "result": r}
    # the directory part must be physical (no symlinks), when there is one
    d = os.path.dirname(r)
    if d and os.path.isdir(d):
        phys = os.path.realpath(d)
        if e4.ref_clean(os.path.join(cwd_abs_phys(cwd_abs), d)) != phys:
            return "bad", {"why": "directory part still contains a symlink", "result": r, "physical_dir": phys}
    return "ok", None


def cwd_abs_phys(cwd_abs):
    return os.path.realpath(cwd_abs)


def check_relpath(tier, verdict, cov, scratch, only=None):
    P = str(scratch / "lt" / "p")
    if not os.path.isdir(P):
        build_link_tree(P)
    P = os.path.realpath(P)
    reqs = []
    meta = []
    rd_reqs = []
    rd_meta = []
    for c in CWDS:
        cwd_abs = P + ("/" + c if c else "")
        reqs.append(e4.cd(cwd_abs))
        meta.append(None)
        rd_reqs.append(e4.cd(cwd_abs))
        rd_meta.append(None)
        for tname, t in spellings_for(c, P):
            rd_reqs.append((t,))
            rd_meta.append((c, cwd_abs, tname, t))
            for bspec in BASE_SPECS:
                if only and (c, tname, bspec) != only:
                    continue
                reqs.append((t, bspec.replace("{P}", P)))
                meta.append((c, cwd_abs, tname, t, bspec))
    here = os.getcwd()
    stats = {"ok": 0, "noclaim": 0, "bad": 0, "bad_base_final_symlink": 0}
    bad = []
    try:
        ans = e4.run_harness("relpath", reqs, cwd=P)
        for m, a in zip(meta, ans):
            if m is None:
                if a.get("cd") != "ok":
                    raise MachineryError(f"harness could not chdir: {a}")
                continue
            c, cwd_abs, tname, t, bspec = m
            base = bspec.replace("{P}", P)
            st, detail = judge_relpath(cwd_abs, t, base, a)
            stats[st] += 1
            if st == "bad":
                bsym = base_final_is_symlink(base)
                if bsym:
                    stats["bad_base_final_symlink"] += 1
                bad.append(({"kind": "relpath-rejoin-mismatch-base-is-symlink" if bsym else "relpath-rejoin-mismatch",
                             "cwd": c, "t": tname, "base": bspec},
                            {"engine": "E4", "check": "relpath", "cwd": c, "t": tname, "t_string": t.replace(P, "{P}"),
                             "base": bspec, "answer": json.loads(json.dumps(a).replace(P, "{P}")),
                             "detail": json.loads(json.dumps(detail).replace(P, "{P}"))}))
        rstats = {"ok": 0, "noclaim": 0, "bad": 0}
        rbad = []
        if not only:
            rans = e4.run_harness("realdirpath", rd_reqs, cwd=P)
            for m, a in zip(rd_meta, rans):
                if m is None:
                    continue
                c, cwd_abs, tname, t = m
                st, detail = judge_realdirpath(cwd_abs, t, a)
                rstats[st] += 1
                if st == "bad":
                    rbad.append(({"kind": "realdirpath-mismatch", "cwd": c, "t": tname},
                                 {"engine": "E4", "check": "realdirpath", "cwd": c, "t": tname,
                                  "t_string": t.replace(P, "{P}"),
                                  "answer": json.loads(json.dumps(a).replace(P, "{P}")),
                                  "detail": json.loads(json.dumps(detail).replace(P, "{P}"))}))
    finally:
        os.chdir(here)
    for sig, doc in sorted(bad, key=lambda sd: (len(sd[1]["t_string"]) + len(sd[0]["base"]), sd[1]["t_string"]))[:20]:
        verdict.report(sig, doc)
    for sig, doc in sorted(rbad, key=lambda sd: (len(sd[1]["t_string"]), sd[1]["t_string"]))[:20]:
        verdict.report(sig, doc)
    if cov is not None:
        cov["relpath"] = {"triples": stats["ok"] + stats["noclaim"] + stats["bad"], "kernel_verified": stats["ok"],
                          "no_claim": stats["noclaim"], "mismatch": stats["bad"],
                          "mismatch_with_base_final_symlink": stats["bad_base_final_symlink"],
                          "cwds": CWDS, "t_spellings_per_cwd": len(spellings_for("", P)), "bases": len(BASE_SPECS)}
        cov["realdirpath"] = {"inputs": sum(rstats.values()), "kernel_verified": rstats["ok"],
                              "no_claim": rstats["noclaim"], "mismatch": rstats["bad"]}
        k = 0
        for m, a in zip(meta, ans):
            if m and m[0] == "d/e" and m[4] in ("{P}/q", "{P}/ld/e") and m[2] in ("rel:ld/le/lf", "abs:q/lup/x"):
                cov["samples"].append({"fn": "relpath", "cwd": "{P}/" + m[0], "t": m[3].replace(P, "{P}"), "base": m[4],
                                       "redo": e4.ans_str(a).replace(P, "{P}")})
                k += 1
        cov["evaluations"] += stats["ok"] + stats["noclaim"] + stats["bad"] + sum(rstats.values())
        cov["distinct_nontrivial"] += stats["ok"] + rstats["ok"]
    return len(bad) + len(rbad)


# ---------------------------------------------------------------------------

RULE = ("E4: complete enumeration. normpath: every string of length <= L over {a,b,.,/} (quick L=6, thorough L=8) plus "
        "(thorough) every sequence of <= 6 components from {'', '.', '..', 'a', 'bb'} rooted or not, with or without "
        "trailing slash; each compared with an independent stack-based Clean, re-applied for idempotence, and stat()ed "
        "before/after cleaning from two working directories inside a symlink-free real tree (chroot). relpath/realdirpath: "
        "all (cwd, t, base) triples from 6 working directories x ~75 spellings x 15 bases in a real tree with directory "
        "symlinks, judged by lstat identity of the re-joined path. distinct_nontrivial = number of distinct normpath "
        "inputs x with normpath(x) != x, plus the relpath triples and realdirpath inputs for which the kernel gave a "
        "verdict (entry exists or its parent does). End to end: every ordered pair of 6-7 spellings (relative, ./, .., "
        "absolute, doubled slash, through a symlinked directory) of one file on one command line, from 2-3 working "
        "directories, with redo-ifchange, redo and redo -j2 on the real binary: exit 0, one execution, one Files row")


# ---------------------------------------------------------------------------
# scheduled half (E2): several spellings of one file while its lock is contended

def e2_scenarios(tier):
    from ..e2 import scenarios as SC
    from ..worlds import S, World
    w = World("one-d", {"s": ["0", "1"], "d/k": ["0"]}, {"x.do": [S(deps=["s"])]}, ["x"], ["x"])
    wl = World("one-link", {"s": ["0", "1"], "d/k": ["0"]}, {"d/y.do": [S(deps=["../s"])]}, ["d/y"], ["d/y"], symlinks={"ld": "d"})
    vis = SC.LOCKS + ["tok-read", "tok-write", "select-order"]
    q = tier == "quick"
    L = []
    # a second invocation names x twice while the first one holds its lock: both spellings find it busy
    L.append((SC.scn("two-spellings-while-locked", w, ["redo-ifchange x", "redo --no-log x ./x"], visible=vis), 1 if q else 2))
    L.append((SC.scn("three-spellings-while-locked-j2", w, ["redo-ifchange x", "redo --no-log -j2 ./x d/../x x"], visible=vis), 1 if q else 2))
    # two invocations, each with its own spelling: one record, one lock byte, no overlap
    L.append((SC.scn("two-invocations-two-spellings", w, ["redo-ifchange ./x", "redo-ifchange d/../x"], visible=vis), 1 if q else 2))
    # the same file reached through a symbolic link to its directory
    L.append((SC.scn("two-invocations-through-dir-symlink", wl, ["redo-ifchange ld/y", "redo-ifchange d/y"], visible=vis, target="d/y",
                     want="y(0)\n"), 1 if q else 2))
    if not q:
        L.append((SC.scn("three-spellings-j2", w, ["redo --no-log -j2 x ./x d/../x"], visible=vis), 2))
        L.append((SC.scn("redo-vs-redo-two-spellings", w, ["redo --no-log ./x x", "redo --no-log d/../x .//x"], visible=vis), 2))
    return L


def e2_oracle(scn, res):
    from collections import Counter
    from . import c06
    out = [v for v in c06.oracle(scn, res) if v[0]["kind"] == "overlapping-executions"]
    if res["verdict"] != "done":
        return out
    per_run = Counter(tuple(l.split(" ")[1:3]) for l in res["trace"] if l.startswith("B "))
    for (tgt, runid), n in sorted(per_run.items()):
        if n > 1:
            out.append(({"kind": "one-file-built-%d-times-by-one-invocation" % n, "scenario": scn["name"], "target": tgt},
                        {"trace": res["trace"]}))
    for n, rc in res["roots"].items():
        if rc != 0:
            out.append(({"kind": "command-failed", "scenario": scn["name"], "rc": rc}, {"stderr": res["stderr"].get(n, "")[-500:]}))
    tgt = scn.get("target", "x")
    names = [r[0] for r in (res.get("dbrows") or []) if os.path.normpath(r[0]).replace("ld/", "d/") == tgt]
    if names != [tgt]:
        out.append(({"kind": "records-for-one-file", "scenario": scn["name"], "names": names}, {}))
    if res["files"].get(tgt) != scn.get("want", "x(0)\n"):
        out.append(({"kind": "wrong-content", "scenario": scn["name"]}, {"got": res["files"].get(tgt)}))
    return out


def main(tier):
    from .. import e2prop
    rc2 = e2prop.run_property(
        PID, tier, e2_scenarios(tier), e2_oracle, level="exploration",
        rule="E2 half: several spellings of one file in one command while another invocation holds its lock, and two "
             "invocations with different spellings; every schedule with <= b deviations (quick 1, thorough 2)",
        budget_s=600 if tier == "quick" else 3000)
    e2cov = json.load(open(common.EVIDENCE_DIR / "C15.json"))["coverage"]
    t0 = time.time()
    verdict = common.Verdict(PID)
    cov = {"evaluations": 0, "distinct_nontrivial": 0, "samples": [], "rule": RULE, "exhaustive": True}
    scratch = common.scratch_root() / "c15"
    scratch.mkdir(parents=True, exist_ok=True)
    try:
        check_normpath(tier, verdict, cov, scratch)
        check_relpath(tier, verdict, cov, scratch)
        extra_checks(tier, verdict, cov)
    finally:
        shutil.rmtree(scratch, ignore_errors=True)
        common.cleanup_scratch()
    cov["e2_schedules"] = {k: e2cov[k] for k in ("schedules", "states", "transitions", "scenarios", "distinct_final_outcomes", "caps_hit")}
    cov["evaluations"] += e2cov["schedules"]
    cov["exhaustive"] = cov["exhaustive"] and e2cov["exhaustive"]
    rc = verdict.finish(max_print=20) or rc2
    common.write_evidence(PID, tier, "exploration", cov, time.time() - t0, verdict.count + (1 if rc2 else 0),
                          ["the kernel's path resolution is the ground truth for 'which file a path names'",
                           "reference Clean written from Pike's four rules (rv/e4.py), not from helpers.rs",
                           "UTF-8 inputs without NUL or newline; alphabets {a,b,.,/} and {'', ., .., a, bb}",
                           "rvharness links the repository's library crate built from the current working tree"])
    n = cov["normpath"]
    print(f"[{PID}] tier={tier} normpath inputs={n['inputs']} changed={n['changed_by_normpath']} "
          f"kernel({n['kernel_mode']}) stat-ok={n['kernel_stat_succeeded']} relpath triples={cov['relpath']['triples']} "
          f"verified={cov['relpath']['kernel_verified']} realdirpath={cov['realdirpath']['inputs']} "
          f"violations={verdict.count} wall={time.time()-t0:.1f}s")
    return rc


def replay(path):
    doc = json.load(open(path))
    if doc.get("engine") == "E2":
        from .. import e2prop
        return e2prop.replay(PID, {s["name"]: s for s, _ in e2_scenarios("thorough")}, e2_oracle, path)
    chk = doc.get("check")
    verdict = common.Verdict(PID)
    scratch = common.scratch_root() / "c15"
    scratch.mkdir(parents=True, exist_ok=True)
    bad = 0
    try:
        if chk == "normpath":
            x = doc["input"]
            g = e4.ans_str(e4.run_harness("normpath", [(x,)])[0])
            print(f"normpath({x!r}) = {g!r}; reference {e4.ref_clean(x)!r}")
            bad = int(g != e4.ref_clean(x))
        elif chk == "idempotence":
            x = doc["input"]
            g = e4.ans_str(e4.run_harness("normpath", [(x,)])[0])
            g2 = e4.ans_str(e4.run_harness("normpath", [(g,)])[0])
            print(f"normpath({x!r}) = {g!r}; again = {g2!r}")
            bad = int(g != g2)
        elif chk == "kernel":
            x = doc["input"]
            g = e4.ans_str(e4.run_harness("normpath", [(x,)])[0])
            tree = str(scratch / "plain")
            build_plain_tree(tree)
            kr = kernel_compare(tree, [(x, g)])
            print(json.dumps(kr))
            bad = int(any(b["cwd"] == doc["cwd"] for b in kr["bad"]))
        elif chk == "relpath":
            bad = check_relpath("quick", verdict, None, scratch, only=(doc["cwd"], doc["t"], doc["base"]))
            for sig, d in verdict.new:
                print(json.dumps(d, indent=1))
        elif chk == "realdirpath":
            check_relpath("quick", verdict, None, scratch)
            hits = [d for sig, d in verdict.new if sig.get("kind") == "realdirpath-mismatch" and
                    (sig["cwd"], sig["t"]) == (doc["cwd"], doc["t"])]
            for d in hits:
                print(json.dumps(d, indent=1))
            bad = len(hits)
        else:
            raise MachineryError(f"C15 replay: unknown check {chk!r} (end-to-end replays are handled by extra part)")
    finally:
        shutil.rmtree(scratch, ignore_errors=True)
        common.cleanup_scratch()
    print("VIOLATION-REPLAYED" if bad else "replay: no longer fails")
    return 1 if bad else 0
