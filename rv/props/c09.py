"""C09 -- no interleaving crashes or deadlocks the scheduler (engine E2)."""
from .. import common, e2prop
from ..e2 import scenarios as SC

PID = "C09"


def scenarios(tier):
    w = SC.W()
    q = tier == "quick"
    L = []
    # (1) a sub-redo with children whose exit coincides with a token arriving
    L.append((SC.scn("fan3x2-j2", w["fan3x2"], ["redo --no-log -j2 t1 t2"], visible=SC.TOKENS), 1 if q else 2))
    # (2) two top-level invocations forcing the same target
    # (small enough for two deviations in the quick tier: e.g. "the target becomes free between the waiting invocation's
    # self-check and its next look at the lock" needs a switch to the second invocation and a switch back)
    L.append((SC.scn("two-redo-x", w["one"], ["redo --no-log x", "redo --no-log x"], visible=SC.CORE), 2 if q else 3))
    L.append((SC.scn("two-ifchange-top", w["chain"], ["redo-ifchange top", "redo-ifchange top"],
                     setup=[["ifchange", ["top"]], ["edit", "s", "1"]], visible=SC.CORE), 1 if q else 2))
    # (3) the same target named twice in one command, by two spellings
    L.append((SC.scn("alias-ifchange", w["one"], ["redo-ifchange x ./x"], visible=SC.CORE), 0 if q else 1))
    L.append((SC.scn("alias-redo-j2", w["one"], ["redo --no-log -j2 x ./x"], visible=SC.CORE), 0 if q else 1))
    # (4) two sub-redos that want each other's first target second
    L.append((SC.scn("cross-j2", w["cross"], ["redo --no-log -j2 p q"], visible=SC.TOKENS + ["lock-try"]), 1 if q else 2))
    # two children of one redo exit between two of its wake-ups while a third target of its list is locked by another
    # invocation (whose script goes on for three polling intervals): everything finished must be recorded before it waits
    from ..worlds import S as _S, World as _W
    tw = _W("two-exits-then-locked", {"s": ["0", "1"]},
            {"x1.do": [_S(deps=["s"])], "x2.do": [_S(deps=["s"], out="file")], "y.do": [_S(deps=["s"], sync=(("mid", "sleep", "3"),))]},
            ["x1", "x2", "y"], ["x1", "x2", "y"])
    L.append((SC.scn("two-exits-then-locked-j3", tw, ["redo --no-log y", "redo --no-log -j3 x1 x2 y"],
                     visible=SC.TOKENS + ["lock-try"]), 1 if q else 2))
    # a sub-redo that waited for ANOTHER invocation's lock (and gave its token back meanwhile) needs a token again when the
    # lock is free -- at a moment when the redo above it has started all it had to start and only waits for its children:
    # that one must not sit on the only token (-j1, no log follower that could lend one)
    sw = _W("starve", {"s": ["0", "1"]},
            {"L.do": [_S(deps=["s"], sync=(("start", "set", "L-started"), ("mid", "wait", "d-done")))],
             "c.do": [_S(deps=["L"], sync=(("start", "wait", "L-started"),))],
             "d.do": [_S(deps=["s"], out="file", sync=(("end", "set", "d-done"),))],
             "h.do": [_S(deps=["c", "d"])]},
            ["h", "c", "d", "L"], ["h"])
    L.append((SC.scn("sub-redo-back-from-a-foreign-lock-j1", sw,
                     [{"name": "T0", "argv": ["redo", "--no-log", "L"]}, {"name": "T1", "argv": ["redo", "--no-log", "-j1", "h"]}],
                     visible=SC.TOKENS + ["lock-try"]), 1 if q else 2))
    L.append((SC.scn("cross-src-j2", w["cross-src"], ["redo --no-log -j2 p q"], visible=SC.TOKENS + ["lock-try"]), 1 if q else 2))
    # a script that wrecks the place of its own target (its parent directory becomes a regular file) while a sibling job is
    # still running: that job fails -- redo itself must neither abort nor abandon the sibling
    ww = _W("wreck", {"s": ["0", "1"], "d/k": ["0"]},
            {"default.bad.do": [_S(deps=["s"], wreck="d")], "slow.do": [_S(deps=["s"], out="file")]},
            ["d/q.bad", "slow"], ["slow"])
    L.append((SC.scn("script-replaces-its-targets-directory-j2", ww, ["redo --no-log -j2 d/q.bad slow"], visible=SC.TOKENS,
                     may_fail=True), 1 if q else 2))
    L.append((SC.scn("script-replaces-its-targets-directory-j1", ww, ["redo --no-log d/q.bad slow"], visible=SC.TOKENS,
                     may_fail=True), 0 if q else 1))
    # (5) all-success graphs at -j2 / -j3
    L.append((SC.scn("diamond-j2", w["diamond"], ["redo --no-log -j2 top"], visible=SC.TOKENS), 1 if q else 2))
    # several children exiting between two wake-ups of their parent (default schedule: the parent parks, all children finish)
    L.append((SC.scn("fan3-j3", w["fan3"], ["redo --no-log -j3 top"], visible=SC.TOKENS), 0 if q else 2))
    # (6) token starvation with log capture: the followed sub-redo cheats (finds its target up to date / builds it itself)
    from .c08 import cheat_worlds
    cw1, cw2, _cw3, _cw4 = cheat_worlds()
    L.append((SC.scn("log-cheat-uptodate-j2", cw1, ["redo -j2 b a c"], visible=SC.TOKENS + ["lock-try"], log_mode=True), 1 if q else 2))
    L.append((SC.scn("log-cheat-builds-j2", cw2, ["redo -j2 b a c"], visible=SC.TOKENS + ["lock-try"], log_mode=True), 0 if q else 2))
    # (7) a long wait for a token (no log capture, so no cheating): a's chain builds x, b's redo-ifchange hands its token
    # back while it waits for x, c takes it; x finishes, but a and c go on working for 80 more polling intervals of the
    # waiting process (its back-off doubles every time).  Default schedule only: the dimension explored is time.
    from ..worlds import S, World
    lw = World("long-wait", {"s": ["0", "1"]},
               {"x.do": [S(deps=["s"], sync=(("start", "set", "x-started"), ("mid", "wait", "c-started")))],
                "a.do": [S(deps=["x"], sync=(("mid", "sleep", "80"),))],
                "b.do": [S(deps=["x"], sync=(("start", "wait", "x-started"),))],
                "c.do": [S(deps=["s"], out="file", sync=(("start", "set", "c-started"), ("mid", "sleep", "80")))]},
               ["a", "b", "c", "x"], ["a", "b", "c"])
    L.append((SC.scn("long-wait-for-a-token-j2", lw, ["redo --no-log -j2 b a c"], visible=SC.TOKENS + ["lock-try"], max_steps=6000), 0))
    if not q:
        L.append((SC.scn("fan3x2-j3", w["fan3x2"], ["redo --no-log -j3 t1 t2"], visible=SC.TOKENS), 2))
        L.append((SC.scn("failfan-j2", w["failfan"], ["redo --no-log -j2 top"], visible=SC.TOKENS), 2))
    return L


def holds_unrecorded_while_waiting(scn, res):
    """Invariant behind "never waits forever": a redo process that parks in a lock wait holds no target lock whose script
    has already ended without its result being recorded (such a lock is only released by that very process, so two
    processes in this state that want each other's target wait for ever).  Judged on the scheduler's event order."""
    out = []
    fid_name = {r[3]: r[0] for r in (res.get("dbrows") or [])}
    timeline = [(st, 0, lid, kind, detail) for st, lid, kind, detail in res["events"]]
    timeline += [(s["i"], 1, s["lid"], s["kind"], s["detail"]) for s in res["steps"]]
    timeline.sort(key=lambda x: (x[0], x[1]))
    held = {}        # lid -> {fid: index in timeline of acquisition}
    ended = {}       # target name -> [(index, lid of the script's shell)]
    recorded = {}    # (lid, fid) -> [index]
    for idx, (st, _o, lid, kind, detail) in enumerate(timeline):
        k = kind.lstrip("~")
        if k == "lock-acquired":
            fid = int(detail.split("fid=")[1].split()[0])
            held.setdefault(lid, {})[fid] = idx
        elif k == "unlock":
            fid = int(detail.split("fid=")[1].split()[0])
            held.get(lid, {}).pop(fid, None)
        elif k == "script" and detail.startswith("end "):
            ended.setdefault(detail[4:], []).append((idx, lid))
        elif k == "record-begin":
            fid = int(detail.split("fid=")[1].split()[0])
            recorded.setdefault((lid, fid), []).append(idx)
        elif k == "lock-wait":
            want = int(detail.split("fid=")[1].split()[0])
            for fid, since in list(held.get(lid, {}).items()):
                if fid == want or fid >= 0x10000000:
                    continue
                name = fid_name.get(fid)
                ends = [i for i, sl in ended.get(name, []) if i > since and sl.startswith(lid + ".")]
                if ends and not any(i > ends[-1] for i in recorded.get((lid, fid), [])):
                    out.append(({"kind": "waits-for-a-lock-while-holding-an-unrecorded-finished-job", "scenario": scn["name"],
                                 "holds": name}, {"process": lid, "wants_fid": want, "at_step": st}))
    return out


def oracle(scn, res):
    out = holds_unrecorded_while_waiting(scn, res) if res["verdict"] in ("done", "deadlock") else []
    if res["verdict"] == "done" and scn["name"] not in ("failfan-j2",) and not scn.get("may_fail"):
        # every script in these scenarios succeeds: every invocation must exit 0
        for n, rc in res["roots"].items():
            if rc != 0:
                out.append(({"kind": "all-scripts-succeed-but-exit-nonzero", "scenario": scn["name"], "rc": rc},
                            {"stderr": res["stderr"].get(n, "")[-800:]}))
    return out


READY = {}


def collect(scn, res):
    """which sets of ready events did an event-loop wake-up see? (the property quantifies over every subset of
    {child k exits, token arrives} between two wake-ups)"""
    import re
    rs = READY.setdefault(scn["name"], set())
    for s in res["steps"]:
        if s["kind"] == "select" and s["label"] == "io":
            m = re.search(r"ready=(\S*)", s["detail"])
            if m:
                parts = sorted("token" if x == "tok" else "child-exit" for x in m.group(1).split(",") if x)
                rs.add("+".join(parts))


# ---------------------------------------------------------------------------
# outputs that nobody reads any more (`redo ... 2>&1 | head -1`, a closed pager): writing to them fails with EPIPE; a redo
# process may stop, but it never aborts (exit 101), least of all the one that has jobs to record

def closed_output_cases():
    """(name, files, setup commands, command, which of stdout/stderr are reader-less pipes, statuses that are fine)"""
    direct = 'redo-ifchange s\necho x > "$1"\n'            # writes $1 directly: redo reports that on stderr while recording
    both = 'redo-ifchange s\necho a\necho b > "$3"\n'       # stdout and $3: likewise
    ok = 'redo-ifchange s\necho "$1"\n'
    files = {"s": "0\n", "m.do": direct, "b.do": both, "t.do": ok, "u.do": ok}
    return [
        ("builder-reports-direct-write-to-dead-stderr", files, [], ["redo", "--no-log", "m"], ("err",), None),
        ("builder-reports-two-outputs-to-dead-stderr", files, [], ["redo", "--no-log", "b"], ("err",), None),
        ("builder-j2-dead-stderr", files, [], ["redo", "--no-log", "-j2", "m", "t", "u"], ("err",), None),
        ("build-with-log-capture-dead-stderr", files, [], ["redo", "t", "u"], ("err",), None),
        ("redo-targets-dead-stdout", files, [["redo", "--no-log", "t", "u"]], ["redo-targets"], ("out",), None),
        ("redo-sources-dead-stdout", files, [["redo", "--no-log", "t", "u"]], ["redo-sources"], ("out",), None),
        ("redo-ood-dead-stdout", files, [["redo", "--no-log", "t", "u"], ["sh", "-c", "echo 1 > s"]], ["redo-ood"], ("out",), None),
        ("redo-whichdo-dead-stdout", files, [], ["redo-whichdo", "t"], ("out",), None),
        ("redo-log-dead-stdout", files, [["redo", "t"]], ["redo-log", "t"], ("out", "err"), None),
    ]


def closed_outputs(verdict):
    import os
    import shutil
    import subprocess
    bindir = common.build_subject()
    root = common.scratch_root() / "c09pipe"
    root.mkdir(parents=True, exist_ok=True)
    n = 0
    for name, files, setup, cmd, dead, _ok in closed_output_cases():
        d = root / name
        (d / "p").mkdir(parents=True)
        (d / "home").mkdir()
        try:
            for fn, text in files.items():
                (d / "p" / fn).write_text(text)
            env = common.base_env(bindir, d / "home")
            for sc in setup:
                subprocess.run(sc, cwd=str(d / "p"), env=env, stdin=subprocess.DEVNULL, stdout=subprocess.DEVNULL,
                               stderr=subprocess.DEVNULL, timeout=60)
            r, w = os.pipe()
            os.close(r)        # a pipe without a reader: every write to it fails with EPIPE
            try:
                p = subprocess.run(cmd, cwd=str(d / "p"), env=env, stdin=subprocess.DEVNULL,
                                   stdout=w if "out" in dead else subprocess.DEVNULL,
                                   stderr=w if "err" in dead else subprocess.PIPE, timeout=60)
            finally:
                os.close(w)
            n += 1
            err = (p.stderr or b"").decode("utf-8", "replace") if "err" not in dead else ""
            if p.returncode == 101 or "panicked" in err:
                verdict.report({"kind": "abort-when-output-has-no-reader", "case": name},
                               {"engine": "E1-closed-outputs", "command": cmd, "dead": list(dead), "rc": p.returncode, "stderr": err[-400:]})
            elif p.returncode < 0:
                verdict.report({"kind": "killed-by-signal-when-output-has-no-reader", "case": name, "signal": -p.returncode},
                               {"engine": "E1-closed-outputs", "command": cmd, "dead": list(dead)})
        finally:
            shutil.rmtree(d, ignore_errors=True)
    return {"cases": [c[0] for c in closed_output_cases()], "commands_run": n}


def many_records(verdict):
    """redo's own records (do / done of every target it builds) go to the log viewer through a pipe.  While the viewer follows
    the FIRST target of the command line it reads that target's log, not the pipe: a first target that outlasts 64 KiB of
    records of the others (here 220 targets with long names; with short names about 800) must not stop the build.
    (On a tree that hangs the case costs its whole watchdog, 90 s.)"""
    import os
    import shutil
    import subprocess
    bindir = common.build_subject()
    d = common.scratch_root() / "c09many"
    (d / "p" / ".redo").mkdir(parents=True)
    (d / "home").mkdir()
    try:
        P = d / "p"
        (P / "slow.do").write_text('while [ ! -e go ]; do sleep 0.05; done\necho slow\n')
        (P / "default.t.do").write_text('echo t\n')
        (P / "last.do").write_text(': > go\n')
        names = ["t" + "x" * 200 + "%03d.t" % i for i in range(220)]
        env = common.base_env(bindir, d / "home")
        with open(d / "err", "wb") as ef:
            p = subprocess.Popen([str(bindir / "redo"), "-j2", "slow"] + names + ["last"], cwd=str(P), env=env, stdin=subprocess.DEVNULL,
                                 stdout=subprocess.DEVNULL, stderr=ef, start_new_session=True)
            try:
                rc = p.wait(timeout=90)
            except subprocess.TimeoutExpired:
                rc = None
                import signal
                try:
                    os.killpg(p.pid, signal.SIGKILL)
                except ProcessLookupError:
                    pass
                p.wait()
        built = sum(1 for n in names if (P / n).exists())
        if rc is None:
            verdict.report({"kind": "hang-when-redos-own-records-fill-the-pipe-to-the-log-viewer", "case": "first-target-outlasts-64KiB-of-records"},
                           {"engine": "E1-many-records", "command": "redo -j2 slow <220 long names> last", "targets_built_before_the_hang": built,
                            "stderr_tail": (d / "err").read_bytes()[-300:].decode("utf-8", "replace")})
        elif rc != 0:
            verdict.report({"kind": "all-scripts-succeed-but-exit-nonzero", "case": "first-target-outlasts-64KiB-of-records", "rc": rc},
                           {"engine": "E1-many-records", "stderr_tail": (d / "err").read_bytes()[-300:].decode("utf-8", "replace")})
        return {"targets": len(names) + 2, "built": built, "rc": rc}
    finally:
        shutil.rmtree(d, ignore_errors=True)


def sigchld_ignored(verdict):
    """redo started by a parent that ignores SIGCHLD (some service managers and wrappers do; the disposition is inherited
    across exec): the kernel then reaps children by itself and wait() answers ECHILD.  A build whose scripts all succeed exits 0."""
    import shutil
    import signal
    import subprocess
    bindir = common.build_subject()
    d = common.scratch_root() / "c09chld"
    (d / "p" / ".redo").mkdir(parents=True)
    (d / "home").mkdir()
    out = {}
    try:
        P = d / "p"
        (P / "x.do").write_text('redo-ifchange y\necho x\n')
        (P / "y.do").write_text('echo y\n')
        env = common.base_env(bindir, d / "home")
        for name, cmd in (("redo-no-log", ["redo", "--no-log", "x"]), ("redo-log-j2", ["redo", "-j2", "x"]), ("ifchange", ["redo-ifchange", "x"])):
            for f in ("x", "y"):
                if (P / f).exists():
                    (P / f).unlink()
            p = subprocess.run([str(bindir / cmd[0])] + cmd[1:], cwd=str(P), env=env, stdin=subprocess.DEVNULL, stdout=subprocess.PIPE,
                               stderr=subprocess.PIPE, timeout=120, preexec_fn=lambda: signal.signal(signal.SIGCHLD, signal.SIG_IGN))
            out[name] = p.returncode
            if p.returncode != 0 or not (P / "x").exists():
                verdict.report({"kind": "all-scripts-succeed-but-exit-nonzero", "case": "SIGCHLD-ignored-by-the-parent:" + name, "rc": p.returncode},
                               {"engine": "E1-sigchld", "command": cmd, "stderr": p.stderr.decode("utf-8", "replace")[-400:]})
        return out
    finally:
        shutil.rmtree(d, ignore_errors=True)


def main(tier):
    v = common.Verdict(PID)
    cov_pipe = closed_outputs(v)
    cov_pipe["sigchld_ignored_by_the_parent"] = sigchld_ignored(v)
    cov_pipe["many_records"] = many_records(v)
    rc_pipe = v.finish()
    rc = main_e2(tier, cov_pipe, v.count)
    return 1 if (rc or rc_pipe) else 0


def main_e2(tier, cov_pipe, n_pipe):
    return e2prop.run_property(
        PID, tier, scenarios(tier), oracle, collect=collect,
        extra=lambda: {"distinct_ready_sets_at_wakeups": {k: sorted(v) for k, v in READY.items()},
                       "closed_outputs": cov_pipe, "closed_outputs_violations": n_pipe},
        rule="stateless exploration of the real process tree under a controlled scheduler: every schedule with <= b "
             "deviations (quick b<=1, thorough b<=2) from the default policy, at the granularity of the scenario's visible "
             "gates (event-loop wake-ups with the exact set of ready descriptors, token/cheat pipe reads and writes, lock "
             "try/wait/unlock, fork hand-overs, select! poll order, script start/around redo-ifchange/end); oracle on every "
             "execution: no panic / exit 101, no deadlock (no enabled thread while some are alive), no livelock (only timers "
             "enabled and the global state repeats), step cap not hit, and exit 0 when all scripts succeed",
        assumptions=["one process runs at a time; gates as listed per scenario; time in the jobserver is virtual",
                     "<= 2 concurrently started top-level invocations; graphs as listed"],
        budget_s=600 if tier == "quick" else 3000)


def replay(path):
    import json
    doc = json.load(open(path))
    if doc.get("engine") == "E1-closed-outputs":
        v = common.Verdict(PID)
        closed_outputs(v)
        common.cleanup_scratch()
        print("VIOLATION-REPLAYED" if v.count else "replay: no longer fails", v.count)
        return 1 if v.count else 0
    sc = {s["name"]: s for s, _ in scenarios("thorough")}
    return e2prop.replay(PID, sc, oracle, path)
