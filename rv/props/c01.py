"""C01 -- no stale target after a successful redo-ifchange / redo (engine E1)."""
import json

from .. import e1prop, oracles, worlds
from ..e1 import replay_history
from .. import common

PID = "C01"


def step_check(proj, i, obs):
    out = oracles.check_content(proj, obs)
    op = obs["op"]
    if op[0] in ("ifchange", "redo") and obs["rc"] == 0:
        out.append(e1prop.stat("exit0-build-commands-judged"))
        if any(l.startswith("B ") for l in obs["trace"]):
            out.append(e1prop.stat("exit0-commands-that-ran-scripts"))
    return out


def midrun_world():
    """NOT part of the plan: C01 excludes histories in which a source is edited while a run is in progress, and what
    this world shows on the unchanged tree (dependents that were checked or built earlier in the same run never notice a
    target rebuilt later in that run: run ids are the only clock) is a consequence of exactly such an edit.  Kept for
    experiments (dev use): `midrun_world()` + `midrun_check`.
    A source edited WHILE a run is under way (by the user; here the driver script does it between two of its commands).
    The run in which that happens is not judged (the property speaks of what was there when the command started); the
    commands AFTER it are: whatever the interrupted-by-an-edit run left behind, the next redo-ifchange brings every
    target up to date.  The interesting orders: a target found clean, then the edit, then a forced `redo` of it."""
    from ..worlds import S, World
    E = ("uedit", ("s", "1"))
    D = ("udovar", ("c.do", "1"))
    seqs = [[("ifchange", ("c",)), E, ("redo", ("c",)), ("ifchange", ("dd",))],
            [("ifchange", ("dd",)), E, ("redo", ("c",))],
            [("ifchange", ("c",)), E, ("redo", ("c",))],
            [("ifchange", ("dd",)), E, ("ifchange", ("dd",))],
            [E, ("redo", ("c",)), ("ifchange", ("dd",))],
            # ... and the same with the rule's script replaced instead (redo re-stamps a script whenever it runs it)
            [("ifchange", ("c",)), D, ("redo", ("c",)), ("ifchange", ("dd",))],
            [("ifchange", ("dd",)), D, ("redo", ("c",))],
            [("ifchange", ("c",)), D, ("redo", ("c",))],
            [("ifchange", ("dd",)), D, ("ifchange", ("dd",))],
            [D, ("redo", ("c",)), ("ifchange", ("dd",))]]
    w = World("midrun-edit", {"s": ["0", "1"], "u": ["5", "6"]},
              {"c.do": [S(deps=["s"]), S(deps=["u"], tag="v2")], "dd.do": [S(deps=["c"], out="file")],
               "driver.do": [S(seq=seq, tag="seq%d" % i) for i, seq in enumerate(seqs)]},
              ["driver", "dd", "c"], ["driver", "dd"])
    hs = []
    for k in range(len(seqs)):
        hs.append([["ifchange", ["dd"]], ["dovar", "driver.do", k], ["redo", ["driver"]], ["ifchange", ["dd"]], ["ifchange", ["dd"]]])
        hs.append([["dovar", "driver.do", k], ["redo", ["driver"]], ["ifchange", ["dd"]], ["edit", "s", "0"], ["ifchange", ["dd"]]])
    return w, hs


def midrun_check(proj, i, obs):
    op = obs["op"]
    if op[0] == "redo" and op[1] == ["driver"]:
        return [e1prop.stat("runs-with-an-edit-under-way (not judged themselves)")]
    return step_check(proj, i, obs)


def alphabet(world, h):
    return e1prop.std_alphabet(world, h)


def alphabet_k(world, h):
    """the same plus interrupted builds (at most one kill per history)"""
    return e1prop.std_alphabet(world, h, kills=1)


def plan(tier):
    W = worlds.curated()
    if tier == "quick":
        names = ["chain", "csum-mid", "csum-deep", "csum-two-b", "csum-toggle", "fan3", "always", "ifcreate", "dynamic", "default", "dovar", "fail", "diamond-csum", "autodir", "tolerant", "tolerant-csum", "linkdir", "shared-src"]
        # interrupted builds ("earlier partial builds"): at most one kill per history, worlds chosen for one mechanism each
        K = ["chain", "csum-mid", "dynamic", "chain-append"]
        return [(W[n], alphabet, 3, 2) for n in names if n not in K] + [(W[n], alphabet_k, 3, 2) for n in K]
    p = [(W[n], alphabet_k if n in ("chain", "csum-mid", "dynamic", "chain-append", "diamond", "csum-deep", "dovar", "default") else alphabet,
          5 if n in ("chain", "csum-mid", "ifcreate", "dynamic", "csum-two", "csum-two-b") else 4)
         for n in W if n not in worlds.OWN_ALPHABET]
    G = worlds.generated()
    p += [(G[k], alphabet, 3) for k in sorted(G)]
    return p


def main(tier):
    return e1prop.run_property(
        PID, tier, plan(tier), "rv.props.c01", check_names={"midrun-edit": "midrun_check"},
        rule="BFS over all histories <= depth d of {redo-ifchange t, redo t, edit source to each other value, touch, "
             "rm target, switch .do variant; in some worlds also: redo-ifchange interrupted by a kill of the whole tree at a script boundary (every target x every position of its script; at most one kill per history)} per world, replayed on the real binary; states deduplicated by canonical "
             "key (files + Files/Deps rows with run ids rank-abstracted + reference-model summary); oracle: after every "
             "exit-0 build command every target in the requested closure equals the from-scratch evaluation",
        assumptions=["sources are not edited while a command runs", "single-directory worlds, plus one with a rule of the parent directory building into a sub-directory (autodir)",
                     "graphs: curated mechanisms + (thorough) all rooted DAGs with <=3 targets, <=2 sources"],
        budget_s=900 if tier == "quick" else 6000)


def replay(path):
    doc = json.load(open(path))
    W = dict(worlds.curated())
    W.update(worlds.generated())
    W["midrun-edit"] = midrun_world()[0]
    bindir = common.build_subject()
    key, viols, summ = replay_history(W[doc["world"]], doc["history"], midrun_check if doc["world"] == "midrun-edit" else step_check, bindir=bindir)
    common.cleanup_scratch()
    bad = [(i, s, d) for i, s, d in viols if s.get("kind") != "__stat__"]
    for s in summ:
        print(s)
    for v in bad:
        print("VIOLATION-REPLAYED", v)
    return 1 if bad else 0
