"""C01 -- no stale target after a successful redo-ifchange / redo (engine E1)."""
import json

from .. import e1prop, oracles, worlds
from ..e1 import replay_history
from .. import common

PID = "C01"


def step_check(proj, i, obs):
    out = oracles.check_content(proj, obs)
    op = obs["op"]
    if op[0] in ("ifchange", "redo") and obs["rc"] == 0:
        out.append(e1prop.stat("exit0-build-commands-judged"))
        if any(l.startswith("B ") for l in obs["trace"]):
            out.append(e1prop.stat("exit0-commands-that-ran-scripts"))
    return out


def alphabet(world, h):
    return e1prop.std_alphabet(world, h)


def alphabet_k(world, h):
    """the same plus interrupted builds (at most one kill per history)"""
    return e1prop.std_alphabet(world, h, kills=1)


def plan(tier):
    W = worlds.curated()
    if tier == "quick":
        names = ["chain", "csum-mid", "csum-deep", "csum-two-b", "csum-toggle", "fan3", "always", "ifcreate", "dynamic", "default", "dovar", "fail", "diamond-csum", "autodir", "tolerant", "tolerant-csum", "linkdir"]
        # interrupted builds ("earlier partial builds"): at most one kill per history, worlds chosen for one mechanism each
        K = ["chain", "csum-mid", "dynamic", "chain-append"]
        return [(W[n], alphabet, 3, 2) for n in names if n not in K] + [(W[n], alphabet_k, 3, 2) for n in K]
    p = [(W[n], alphabet_k if n in ("chain", "csum-mid", "dynamic", "chain-append", "diamond", "csum-deep", "dovar", "default") else alphabet,
          5 if n in ("chain", "csum-mid", "ifcreate", "dynamic", "csum-two", "csum-two-b") else 4)
         for n in W]
    G = worlds.generated()
    p += [(G[k], alphabet, 3) for k in sorted(G)]
    return p


def main(tier):
    return e1prop.run_property(
        PID, tier, plan(tier), "rv.props.c01",
        rule="BFS over all histories <= depth d of {redo-ifchange t, redo t, edit source to each other value, touch, "
             "rm target, switch .do variant; in some worlds also: redo-ifchange interrupted by a kill of the whole tree at a script boundary (every target x every position of its script; at most one kill per history)} per world, replayed on the real binary; states deduplicated by canonical "
             "key (files + Files/Deps rows with run ids rank-abstracted + reference-model summary); oracle: after every "
             "exit-0 build command every target in the requested closure equals the from-scratch evaluation",
        assumptions=["sources are not edited while a command runs", "single-directory worlds, plus one with a rule of the parent directory building into a sub-directory (autodir)",
                     "graphs: curated mechanisms + (thorough) all rooted DAGs with <=3 targets, <=2 sources"],
        budget_s=900 if tier == "quick" else 6000)


def replay(path):
    doc = json.load(open(path))
    W = dict(worlds.curated())
    W.update(worlds.generated())
    bindir = common.build_subject()
    key, viols, summ = replay_history(W[doc["world"]], doc["history"], step_check, bindir=bindir)
    common.cleanup_scratch()
    bad = [(i, s, d) for i, s, d in viols if s.get("kind") != "__stat__"]
    for s in summ:
        print(s)
    for v in bad:
        print("VIOLATION-REPLAYED", v)
    return 1 if bad else 0
