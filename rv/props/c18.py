"""C18 -- build output is logged completely, once, and under the right target (E4 records + E2 schedules)."""
import json
import re
import time

from .. import common, e2prop
from ..e2 import scenarios as SC
from ..worlds import S, World
from . import c18_e4

PID = "C18"
VIS = ["start", "exit", "select", "lock-wait", "script", "log-poll", "fork-parent", "child-start", "unlock", "lock-try"]


def noisy_world(level=1):
    return World("noisy", {"s": ["0", "1"]},
                 {"top.do": [S(deps=["a", "b"], noise=level)], "a.do": [S(deps=["c"], noise=level, out="file")],
                  "b.do": [S(deps=["s"], noise=level)], "c.do": [S(deps=["s"], noise=level)]},
                 ["top", "a", "b", "c"], ["top"])


def noisy_shared_world():
    """a and b both need d: under -j2 one of them finds d locked, and the viewer may meet that job's `locked d` record
    before the other job's `do d`"""
    return World("noisy-shared", {"s": ["0", "1"]},
                 {"top.do": [S(deps=["a", "b"], noise=1)],
                  # a asks for d only once b's chain has started building it, and d goes on only once a has asked: a's
                  # redo-ifchange finds d locked ("locked d" in a's log, which the viewer follows first)
                  "a.do": [S(deps=["d"], noise=1, out="file", sync=(("start", "wait", "d-started"), ("start", "set", "a-asked")))],
                  "b.do": [S(deps=["d"], noise=1)],
                  "d.do": [S(deps=["s"], noise=1, sync=(("start", "set", "d-started"), ("mid", "wait", "a-asked")))]},
                 ["top", "a", "b", "d"], ["top"])


def scenarios(tier):
    q = tier == "quick"
    w = noisy_world(1)
    post = [["redo-log", "-r", "--no-color", "top"], ["redo-log", "-r", "--no-pretty", "top"]]
    L = []
    L.append((SC.scn("noisy-j1", w, ["redo --no-color top"], visible=VIS, log_mode=True, post_cmds=post), 1 if q else 2))
    L.append((SC.scn("noisy-j2", w, ["redo --no-color -j2 top"], visible=VIS, log_mode=True, post_cmds=post), 1 if q else 2))
    # the follower polls by default after every partial write (so that every fragment is read by a separate poll)
    L.append((SC.scn("noisy-j1-follower-polls-every-fragment", w, ["redo --no-color top"], visible=VIS, log_mode=True,
                     post_cmds=post, poll_at="h:"), 0 if q else 1))
    L.append((SC.scn("noisy-j2-follower-polls-every-fragment", w, ["redo --no-color -j2 top"], visible=VIS, log_mode=True,
                     post_cmds=post, poll_at="h:"), 0 if q else 1))
    L.append((SC.scn("noisy-shared-dependency-j2", noisy_shared_world(), ["redo --no-color -j2 top"], visible=VIS, log_mode=True,
                     post_cmds=post), 1 if q else 2))
    # every script ends with an unterminated line
    L.append((SC.scn("noisy-unterminated-last-line-j1", noisy_world(4), ["redo --no-color top"], visible=VIS, log_mode=True,
                     post_cmds=post, unterminated=True), 0 if q else 1))
    # a partial line directly followed by a nested build; a line with a byte that is not UTF-8
    L.append((SC.scn("noisy-partial-line-then-nested-build-j1", noisy_world(8), ["redo --no-color top"], visible=VIS, log_mode=True,
                     post_cmds=post, extra_line=(7, "partial line before the dependencies:", ("top", "a", "b", "c"))), 0 if q else 1))
    L.append((SC.scn("noisy-non-utf8-byte-j1", noisy_world(16), ["redo --no-color top"], visible=VIS, log_mode=True,
                     post_cmds=post, extra_line=(8, "bad . byte", ("top", "a", "b", "c"))), 0 if q else 1))
    # a target built twice in one run (a script that runs `redo x` twice): every execution's lines are output of that target
    tw = World("noisy-twice", {"s": ["0", "1"]},
               {"top.do": [S(seq=[("redo", ["x"]), ("redo", ["x"])], noise=1)], "x.do": [S(deps=["s"], noise=1)]},
               ["top", "x"], ["top"])
    L.append((SC.scn("noisy-target-built-twice-in-one-run-j1", tw, ["redo --no-color top"], visible=VIS, log_mode=True,
                     post_cmds=post, times={"x": 2}), 0))
    # a script that redirects the stderr of its redo-ifchange: what the nested build writes goes to the script's file, and the
    # nested target's own log must not keep showing an earlier build's lines as if they were the latest build's
    rw = World("noisy-redirected", {"s": ["0", "1"]},
               {"top.do": [S(deps=["a"], noise=1)], "a.do": [S(deps=["c"], noise=1, out="file", redir=True)], "c.do": [S(deps=["s"], noise=1)]},
               ["top", "a", "c"], ["top"])
    L.append((SC.scn("noisy-redirected-nested-build-j1", rw, ["redo --no-color top"], visible=VIS, log_mode=True,
                     setup=[["ifchange", ["c"]], ["edit", "s", "1"]],
                     post_cmds=post + [["redo-log", "-r", "--no-color", "c"]], times={"c": 0},
                     post_times=[None, None, {"c": 0, "top": 0, "a": 0}]), 0))
    # one target reached under two names (from a sub-directory as ../c, from the top as c): still shown once -- in a replay that
    # also shows unchanged dependencies (-u), and when the viewer meets a `locked ../c` record of one job before the `do c` of another
    sw = World("noisy-subdir", {"s": ["0", "1"]},
               {"top.do": [S(deps=["d/a", "e/b", "f"], noise=1)], "d/a.do": [S(deps=["../c"], noise=1, out="file")],
                "e/b.do": [S(deps=["../c"], noise=1)], "f.do": [S(deps=["c"], noise=1)], "c.do": [S(deps=["s"], noise=1)]},
               ["top", "d/a", "e/b", "f", "c"], ["top"])
    L.append((SC.scn("noisy-three-names-of-one-target-j1", sw, ["redo --no-color top"], visible=VIS, log_mode=True,
                     post_cmds=post + [["redo-log", "-r", "-u", "--no-color", "top"]]), 0))
    ssw = World("noisy-subdir-shared", {"s": ["0", "1"]},
                {"top.do": [S(deps=["d/a", "e/b"], noise=1)],
                 "d/a.do": [S(deps=["../c"], noise=1, out="file", sync=(("start", "wait", "c-started"), ("start", "set", "a-asked")))],
                 "e/b.do": [S(deps=["../c"], noise=1)],
                 "c.do": [S(deps=["s"], noise=1, sync=(("start", "set", "c-started"), ("mid", "wait", "a-asked")))]},
                ["top", "d/a", "e/b", "c"], ["top"])
    L.append((SC.scn("noisy-two-names-of-one-shared-target-j2", ssw, ["redo --no-color -j2 top"], visible=VIS, log_mode=True,
                     post_cmds=post), 0 if q else 1))
    L.append((SC.scn("noisy-malformed-done-record-j1", noisy_world(32), ["redo --no-color top"], visible=VIS, log_mode=True,
                     post_cmds=post), 0 if q else 1))
    # nothing but an unterminated line after the nested builds (no complete line in between that would bring the "resumed" mark)
    uw = World("noisy-last", {"s": ["0", "1"]},
               {"top.do": [S(deps=["a"], noise=1024)], "a.do": [S(deps=["s"], noise=1, out="file")]},
               ["top", "a"], ["top"])
    L.append((SC.scn("noisy-unterminated-line-right-after-a-nested-build-j1", uw, ["redo --no-color top"], visible=VIS, log_mode=True,
                     post_cmds=post, unterminated=("top",), no_line4=("top",)), 0 if q else 1))
    # a partial line in front of each of two nested builds: the second one is written when another target's lines have been
    # shown in between, and a record follows it directly -- it is still a line of the script that wrote it
    pw = World("noisy-partials", {"s": ["0", "1"]},
               {"top.do": [S(deps=["a", "b"], noise=512, split=True)], "a.do": [S(deps=["s"], noise=1, out="file")], "b.do": [S(deps=["s"], noise=1)]},
               ["top", "a", "b"], ["top"])
    L.append((SC.scn("noisy-partial-line-before-each-of-two-nested-builds-j1", pw, ["redo --no-color top"], visible=VIS, log_mode=True,
                     post_cmds=post, attributed=[("L top 7 building a:", "top"), ("L top 7 building b:", "top")]), 0 if q else 1))
    L.append((SC.scn("noisy-partial-line-with-record-prefix-then-nested-build-j1", noisy_world(64), ["redo --no-color top"], visible=VIS,
                     log_mode=True, post_cmds=post, extra_line=(7, "partial line with @@REDO: in it:", ("top", "a"))), 0 if q else 1))
    # a forced rebuild of top whose dependencies are all up to date: `redo-log -r -u` also shows those (from their logs of the
    # earlier build), and what top writes after asking for them is still top's
    L.append((SC.scn("noisy-unchanged-dependencies-shown-with-u-j1", w, ["redo --no-color top"], visible=VIS, log_mode=True,
                     setup=[["ifchange", ["top"]]], post_cmds=post + [["redo-log", "-r", "-u", "--no-color", "top"]],
                     times={"a": 0, "b": 0, "c": 0}, post_times=[None, None, {}]), 0))
    qw = World("noisy-quiet-dep", {"s": ["0", "1"]},
               {"top.do": [S(deps=["q"], noise=1)], "q.do": [S(deps=["s"])]},
               ["top", "q"], ["top"])
    L.append((SC.scn("noisy-unchanged-quiet-dependency-shown-with-u-j1", qw, ["redo --no-color top"], visible=VIS, log_mode=True,
                     setup=[["ifchange", ["top"]]], post_cmds=post + [["redo-log", "-r", "-u", "--no-color", "top"]],
                     times={"q": 0}, post_times=[None, None, {"q": 0}]), 0))
    # a target whose name ends in a space (names read from a list with trailing blanks or DOS line endings)
    ww = World("noisy-trailing-space", {"s": ["0", "1"]},
               {"top.do": [S(deps=["m "], noise=1)], "m .do": [S(deps=["c"], noise=1, out="file")], "c.do": [S(deps=["s"], noise=1)]},
               ["top", "m ", "c"], ["top"])
    L.append((SC.scn("noisy-target-name-ends-in-space-j1", ww, ["redo --no-color top"], visible=VIS, log_mode=True, post_cmds=post), 0))
    L.append((SC.scn("noisy-record-naming-what-no-target-can-be-called-j1", noisy_world(2048), ["redo --no-color top"], visible=VIS, log_mode=True,
                     post_cmds=post), 0))
    L.append((SC.scn("noisy-record-with-empty-text-j1", noisy_world(128), ["redo --no-color top"], visible=VIS, log_mode=True,
                     post_cmds=post), 0))
    L.append((SC.scn("noisy-multibyte-character-cut-between-two-polls-j1", noisy_world(256), ["redo --no-color top"], visible=VIS,
                     log_mode=True, post_cmds=post, poll_at="h:", extra_line=(9, "caf\u00e9 ok", ("top", "a", "b", "c"))), 0))
    # every script writes a line that parses as a record naming a file redo knows nothing about: in-band signalling, so the
    # line itself is shown as a header -- but the viewer must survive it and go on showing everything else
    L.append((SC.scn("noisy-record-like-line-j1", noisy_world(2), ["redo --no-color top"], visible=VIS, log_mode=True,
                     post_cmds=post), 0 if q else 1))
    if not q:
        L.append((SC.scn("noisy-ifchange-j1", w, ["redo-ifchange top"], visible=VIS, log_mode=True, post_cmds=post), 2))
    return L


HDR = re.compile(r"^redo\s+(\S.*?)(?: \((?:resumed|done|exit \d+)\))?$")
RAW = re.compile(r"^@@REDO:([a-z]+):\d+:[0-9.]+@@ (.*)$")
TAG = re.compile(r"^L (\S+) +(\d) (.*)$")       # (a target name may end in blanks)
EXPECT = {1: "whole line", 2: "first half-second half", 5: "p1-p2-p3-p4", 3: "x" * 20000, 4: "after dependencies"}
ORDER = [1, 2, 5, 3, 4]


def parse_pretty(text, known=None):
    """[(current header target, line)] for every non-header line.  A header-looking line that names none of the world's
    targets is what the pretty-printer makes of a script line that looks like a record (in-band signalling): text."""
    cur = None
    out = []
    for line in text.split("\n"):
        if not line.strip():
            continue
        m = HDR.match(line)
        if m and (known is None or m.group(1).strip().split("/")[-1] in known):
            cur = m.group(1).strip()
            continue
        out.append((cur, line))
    return out


def parse_raw(text):
    cur = None
    out = []
    for line in text.split("\n"):
        if not line.strip():
            continue
        m = RAW.match(line)
        if m and "\0" in m.group(2):
            m = None        # (names nothing a target can be called: a script's line, as for the viewer itself)
        if m:
            kind, t = m.groups()
            if kind in ("do", "resumed", "check"):
                cur = t.strip()
            elif kind == "done":
                pass
            continue
        out.append((cur, line))
    return out


def judge_stream(name, pairs, targets, scn, out, times=None):
    """each target's tagged lines: exactly once, in order, complete, under its own header"""
    times = times if times is not None else (scn.get("times") or {})
    targets = [t.split("/")[-1].strip() for t in targets]     # script lines carry $1, the name relative to the script's directory
    seen = {t: [] for t in targets}
    for cur, line in pairs:
        m = TAG.match(line.strip("\r"))
        if not m:
            continue
        t, seq, payload = m.group(1), int(m.group(2)), m.group(3)
        if seq in (6, 7, 8, 9):
            continue
        if t not in seen:
            out.append(({"kind": "log-line-for-unknown-target", "scenario": scn["name"], "stream": name}, {"line": line[:200]}))
            continue
        seen[t].append(seq)
        if payload != EXPECT.get(seq):
            out.append(({"kind": "log-line-corrupted", "scenario": scn["name"], "stream": name, "target": t, "seq": seq},
                        {"got": payload[:120], "len": len(payload)}))
        if cur is None or cur.split("/")[-1] != t:
            out.append(({"kind": "log-line-under-wrong-target", "scenario": scn["name"], "stream": name, "target": t, "seq": seq},
                        {"header": cur}))
    if scn.get("unterminated"):
        # an unterminated last line is passed on as it is (no header of its own, possibly glued to what follows): judged only
        # for "every target's, exactly once"
        text = "\n".join(l for _c, l in pairs)
        for t in (targets if scn["unterminated"] is True else list(scn["unterminated"])):
            n = len(re.findall(r"L %s 6 no newline at the end" % re.escape(t), text))
            if n != 1:
                out.append(({"kind": "unterminated-last-line-" + ("lost" if n == 0 else "duplicated"), "scenario": scn["name"],
                             "stream": name, "target": t}, {"count": n}))
            else:
                # ... and among the lines of the script that wrote it (after a nested target's lines that takes a "resumed")
                hdr = [c for c, l in pairs if ("L %s 6 no newline at the end" % t) in l][0]
                if hdr is None or hdr.split("/")[-1] != t:
                    out.append(({"kind": "log-line-under-wrong-target", "scenario": scn["name"], "stream": name, "target": t, "seq": 6},
                                {"header": hdr}))
    for pat, owner in scn.get("attributed", ()):
        hits = [(c, l) for c, l in pairs if pat in l]
        if len(hits) != 1:
            out.append(({"kind": "special-line-" + ("lost" if not hits else "duplicated"), "scenario": scn["name"],
                         "stream": name, "target": owner, "text": pat}, {"count": len(hits)}))
        elif hits[0][0] is None or hits[0][0].split("/")[-1] != owner:
            out.append(({"kind": "log-line-under-wrong-target", "scenario": scn["name"], "stream": name, "target": owner, "text": pat},
                        {"header": hits[0][0]}))
    if scn.get("extra_line"):
        seq, pat, who = scn["extra_line"]
        text = "\n".join(l for _c, l in pairs)
        for t in who:
            n = len(re.findall(r"L %s %d %s" % (re.escape(t), seq, pat), text))
            if n != 1:
                out.append(({"kind": "special-line-" + ("lost" if n == 0 else "duplicated"), "scenario": scn["name"],
                             "stream": name, "target": t, "seq": seq}, {"count": n}))
    for t, seqs in seen.items():
        seqs = [x for x in seqs if x not in (6, 7, 8, 9)]
        n = times.get(t, 1)
        if n == 0:
            if seqs:
                out.append(({"kind": "lines-shown-for-a-target-whose-latest-build-logged-nothing", "scenario": scn["name"],
                             "stream": name, "target": t}, {"seqs": seqs}))
            continue
        if n > 1:
            if seqs != ORDER * n:
                out.append(({"kind": "lines-of-a-target-built-%d-times-not-shown-%d-times" % (n, n), "scenario": scn["name"], "stream": name,
                             "target": t}, {"seqs": seqs}))
            continue
        if seqs != [x for x in ORDER if not (x == 4 and t in scn.get("no_line4", ()))]:
            what = "missing" if len(seqs) < len(ORDER) else ("duplicated" if len(set(seqs)) < len(seqs) else "reordered")
            out.append(({"kind": "log-lines-" + what, "scenario": scn["name"], "stream": name, "target": t}, {"seqs": seqs}))


def oracle(scn, res):
    out = []
    if res["verdict"] != "done":
        return out
    if any(rc != 0 for rc in res["roots"].values()):
        out.append(({"kind": "build-failed", "scenario": scn["name"]}, {"roots": res["roots"], "stderr": res["stderr"]["T0"][-600:]}))
        return out
    targets = scn["world"].targets
    live = res["stderr"]["T0"]
    known = {t.split("/")[-1].strip() for t in targets}
    judge_stream("live", parse_pretty(live, known), targets, scn, out)
    for i, p in enumerate(res.get("post", [])):
        raw = "--no-pretty" in p["argv"]
        pt = (scn.get("post_times") or [])
        times = pt[i] if i < len(pt) and pt[i] is not None else None
        if p["rc"] != 0:
            out.append(({"kind": "redo-log-failed", "scenario": scn["name"], "raw": raw}, {"err": p["err"][-400:]}))
            continue
        text = p["out"] + p["err"]
        judge_stream(("replay-raw" if raw else "replay-pretty") + ("" if times is None else ":" + p["argv"][-1]),
                     parse_raw(text) if raw else parse_pretty(text, known), targets, scn, out, times=times)
    return out


def main(tier):
    t0 = time.time()
    # E4 part: record values round-trip
    v4 = common.Verdict(PID)
    cov4 = c18_e4.run(tier, v4)
    rc4 = v4.finish()
    rc2 = e2prop.run_property(
        PID, tier, scenarios(tier), oracle,
        extra={"e4_records": cov4, "e4_violations": v4.count},
        rule="E2: world top -> {a -> c, b}; every script writes tagged stderr lines: a whole line, a line written in two halves and a "
             "line written in four pieces with a scheduling point after every piece (in two scenarios the follower polls by default "
             "after every piece), a 20 kB line, a line after its dependencies; default log mode, so the real redo-log "
             "follower runs inside the scheduled tree and its polls are scheduling points; -j1 and -j2; every schedule with <= b "
             "deviations (quick 1, thorough 2). Oracle: in the live output and in later `redo-log -r top` replays (pretty and raw) each "
             "target's tagged lines appear exactly once, in order, byte-complete and under that target's header. "
             "E4: (kind, pid, timestamp, text) over 11 kinds x 4 pids x 19 timestamps x every text of <= 4 (quick) / 5 (thorough) "
             "tokens from {a, space, @, :, '@@ ', '@@REDO:', tab, u-umlaut}: parse(format(m)) == m, format is a fixpoint, done-text splits",
        assumptions=["script lines that themselves parse as records are in-band signalling by design (thorough scenario, known finding if rewritten)",
                     "no newline inside a record text"],
        budget_s=600 if tier == "quick" else 3000)
    return 1 if (rc4 or rc2) else 0


def replay(path):
    doc = json.load(open(path))
    if doc.get("engine") == "E2":
        sc = {s["name"]: s for s, _ in scenarios("thorough")}
        return e2prop.replay(PID, sc, oracle, path)
    return c18_e4.replay_doc(doc)
