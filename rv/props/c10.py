"""C10 -- a kill at any moment is recovered from by simply running redo again (engine E3).

For every crash point (logical redo process P, k-th state-changing libc call) of `redo-ifchange top`
(REDO_LOG=0, -j1), for scope in {proc: only P dies, tree: the whole process group dies}:
  fresh project -> pre-state -> build under the shim with RVSHIM_KILL -> wait until no process of the
  invocation's session is left -> recovery `redo-ifchange top` (watchdog 30 s, exit 0, closure == from-scratch
  evaluation, no "you modified it") -> edit the source -> `redo-ifchange top` again (exit 0, contents) ->
  `redo-ood` lists nothing that top needs -> no byte of .redo/locks is locked -> no *.redo.tmp left.
"""
import json
import os
import shutil
import time
from collections import Counter
from concurrent.futures import ProcessPoolExecutor
from pathlib import Path

from .. import common, e3, oracles, worlds
from ..common import MachineryError
from ..e1 import Project
from ..refmodel import FAIL

PID = "C10"
BUILD = ["redo-ifchange", "top"]
RECOVERY_WATCHDOG = 30.0
TOP_LID = "redo-ifchange,top#1"

_W = {}


def _init(bindir, root):
    _W["bindir"] = bindir
    _W["root"] = Path(root)


def _src(world):
    s = next(iter(world.sources))
    return s, world.sources[s]


def _world(world_name):
    """'<name>+log' = the same world built with log capture on (the default mode: a redo-log child, per-target log files)"""
    return worlds.curated()[world_name.split("+")[0]]


def _mkproj(world, tag, world_name=None):
    root = _W["root"] / f"{tag}_{os.getpid()}_{time.monotonic_ns()}"
    root.mkdir(parents=True)
    return Project(world, _W["bindir"], root, log_mode=bool(world_name and world_name.endswith("+log"))), root


def _reach(proj, world, prestate):
    """reach the pre-state; returns the edits [(source, value)] to apply *after* the recovery: every source gets
    another value, so every target of the closure has to react"""
    s, alpha = _src(world)
    # (a source that switches a script's failure on is left alone: with it set the project is not "buildable")
    flags = {sp.fail for vs in world.rules.values() for sp in vs if sp.fail}
    others = [(o, a[1]) for o, a in world.sources.items() if o != s and o not in world.absent and o not in flags]
    if prestate == "first":
        return [(s, alpha[1])] + others
    if prestate == "do-removed":
        # world takeover: p.x was built by its own p.x.do, q.x by default.x.do; then p.x.do is removed, so the rule that
        # already built q.x takes over p.x -- the rebuild that is going to be interrupted is caused by nothing but that
        obs = proj.op(["ifchange", ["top"]])
        if obs["rc"] != 0 or oracles.check_content(proj, obs):
            raise SubjectWrong({"kind": "pre-state-build-fails", "world": world.name, "prestate": prestate},
                               {"rc": obs["rc"], "err": obs["err"][-600:]})
        proj.op(["dorm", "p.x.do"])
        return [(s, alpha[1])] + others
    if prestate in ("incr", "incr2", "rmtarget", "override-rm"):
        obs = proj.op(["ifchange", ["top"]])
        if obs["rc"] != 0:
            raise SubjectWrong({"kind": "pre-state-build-fails", "world": world.name, "prestate": prestate},
                               {"rc": obs["rc"], "err": obs["err"][-600:]})
        bad = oracles.check_content(proj, obs)
        if bad:
            raise SubjectWrong({"kind": "pre-state-build-wrong-content", "world": world.name, "prestate": prestate},
                               {"wrong": [b[0] for b in bad]})
        inner = world.targets[1]
        if prestate == "incr":
            proj.op(["edit", s, alpha[1]])
            return [(s, alpha[2] if len(alpha) > 2 else alpha[0])] + others
        if prestate == "incr2":
            # the last value of the alphabet: in the worlds with a checksummed node this is the edit that changes
            # the checksum (0 -> 1 leaves it unchanged)
            proj.op(["edit", s, alpha[-1]])
            return [(s, alpha[0])] + others
        if prestate == "rmtarget":
            proj.op(["rm", inner])
            return [(s, alpha[1])] + others
        if prestate == "override-rm":
            # the user edits a generated file, redo notices (and leaves it alone), the user removes it again:
            # from then on it is an ordinary target that has to be rebuilt
            proj.op(["uwrite", inner, "by hand\n"])
            obs = proj.op(["ifchange", ["top"]])
            if obs["rc"] != 0:
                raise SubjectWrong({"kind": "pre-state-build-fails", "world": world.name, "prestate": prestate},
                                   {"rc": obs["rc"], "err": obs["err"][-600:]})
            proj.op(["rm", inner])
            return [(s, alpha[1])] + others
    raise MachineryError("unknown prestate " + prestate)


def _contents(proj):
    return {n: c for n, (c, _ino) in proj.snapshot().items()}


def _check_contents(proj):
    m = proj.model
    snap = _contents(proj)
    bad = []
    for x in oracles.closure_now(m, ["top"]):
        want = m.evaluate(x)
        got = snap.get(x)
        if want is FAIL:
            raise MachineryError(f"world {proj.w.name}: {x} is not buildable in the reference")
        if got != want:
            bad.append({"target": x, "want": want, "got": got})
    return bad


class SubjectWrong(Exception):
    """the build that is to be interrupted does not even work without a kill: a finding about the subject (reported as a
    violation of the degenerate crash point "no kill at all"), not a machinery error"""

    def __init__(self, sig, detail):
        Exception.__init__(self, json.dumps(sig))
        self.sig, self.detail = sig, detail


def count_run(world_name, prestate):
    try:
        return count_run_(world_name, prestate)
    except SubjectWrong as e:
        return {"subject_wrong": (e.sig, e.detail)}


def count_run_(world_name, prestate):
    """two counting runs; returns (crash points, per-process call counts, normalised sequences)"""
    world = _world(world_name)
    runs = []
    for i in range(2):
        proj, root = _mkproj(world, "cnt", world_name)
        try:
            _reach(proj, world, prestate)
            env, log, procs = e3.shim_env(proj.env, root, "count")
            r = e3.run_session(BUILD, proj.p, env, root, "count", timeout=60)
            if r["rc"] != 0 or r["watchdog"]:
                raise SubjectWrong({"kind": "uninterrupted-build-fails", "world": world_name, "prestate": prestate},
                                   {"rc": r["rc"], "watchdog": r["watchdog"], "err": r["err"][-600:]})
            bad = _check_contents(proj)
            if bad:
                raise SubjectWrong({"kind": "uninterrupted-build-wrong-content", "world": world_name, "prestate": prestate},
                                   {"wrong": bad})
            calls = e3.parse_log(log)
            runs.append((calls, str(root), e3.parse_procs(procs)))
        finally:
            shutil.rmtree(root, ignore_errors=True)
    seqs = e3.compare_counts(runs[0][0], runs[0][1], runs[1][0], runs[1][1])
    calls, root, procs = runs[0]
    pts = e3.crash_points(calls, root, targets=set(world.targets), sources=set(world.sources))
    redo_lids = [p["lid"] for p in procs if p["exe"].startswith("redo")]
    per = Counter(p["lid"] for p in pts)
    per_proc = {lid: per.get(lid, 0) for lid in redo_lids}
    return pts, per_proc, {lid: [list(x) for x in s] for lid, s in seqs.items()}


def script_points(world_name, prestate):
    """kill points at script boundaries (between redo's own system calls, while redo only waits for the script):
    for every script the build of this pre-state executes, its start, the point after each dependency group and the
    point after its output was written.  Found by a counting run that records which scripts run."""
    world = _world(world_name)
    proj, root = _mkproj(world, "scnt", world_name)
    try:
        try:
            _reach(proj, world, prestate)
        except SubjectWrong:
            return []
        proj.read_trace()
        obs = proj.op(["ifchange", ["top"]])
        if obs["rc"] != 0:
            return []   # reported by the counting run of the same combination
        ran = [l.split(" ")[1] for l in obs["trace"] if l.startswith("B ")]
        m = obs["model_before"]
        pts = []
        for t in ran:
            df, spec = m.rule_for(t)
            n = len(m.script_deps(t, spec))
            for pos in list(range(n + 1)) + ["e"]:
                pts.append({"lid": "script:" + t, "k": str(pos), "call": "script-kill", "path_class": None,
                            "window": "script %s at %s" % ("start" if pos == 0 else "end" if pos == "e" else "middle",
                                                           "first run" if ran.index(t) == 0 else "nested run")})
        return pts
    finally:
        shutil.rmtree(root, ignore_errors=True)


def crash_job(args):
    world_name, prestate, scope, pt, expect_prefix = args
    probe = scope.endswith("+q")      # query commands between the crash and the recovery
    full_scope, scope = scope, scope[:-2] if scope.endswith("+q") else scope
    world = _world(world_name)
    proj, root = _mkproj(world, "crash", world_name)
    t0 = time.time()
    fails = []
    tr = {"world": world_name, "prestate": prestate, "scope": full_scope, "lid": pt["lid"], "k": pt["k"],
          "call": pt["call"], "path_class": pt["path_class"], "window": pt["window"]}
    try:
        edits = _reach(proj, world, prestate)
        if pt["call"] == "script-kill" and scope == "sproc":
            # only the redo process that runs this script dies; the orphaned script carries on (after the rest of the
            # invocation has finished) and the harness waits until nothing of the session is left
            env = dict(proj.env, RV_KILL="%s:%s:p" % (pt["lid"].split(":", 1)[1], pt["k"]))
            r = e3.run_session(BUILD, proj.p, env, root, "crash", timeout=60, survivors_timeout=15)
            fired = any(l.startswith("K ") for l in open(proj.trace).read().split("\n"))
            if not fired:
                raise MachineryError(f"parent-only script kill {pt['lid']}:{pt['k']} did not fire in world {world_name}/{prestate} "
                                     f"(rc={r['rc']}; stderr {r['err'][-300:]!r})")
        elif pt["call"] == "script-kill":
            env = dict(proj.env, RV_KILL="%s:%s" % (pt["lid"].split(":", 1)[1], pt["k"]))
            r = e3.run_session(BUILD, proj.p, env, root, "crash", timeout=60, survivors_timeout=15)
            if r["rc"] != -9:
                raise MachineryError(f"script kill {pt['lid']}:{pt['k']} did not fire in world {world_name}/{prestate} "
                                     f"(rc={r['rc']}; stderr {r['err'][-300:]!r})")
        else:
            env, log, procs = e3.shim_env(proj.env, root, "crash", kill=(pt["lid"], pt["k"], scope))
            r = e3.run_session(BUILD, proj.p, env, root, "crash", timeout=60, survivors_timeout=15)
            calls = e3.parse_log(log)
            fired = [c for c in calls if c.call == "KILL" and c.lid == pt["lid"] and c.idx == pt["k"]]
            if len(fired) != 1:
                raise MachineryError(f"kill {pt['lid']}:{pt['k']}:{scope} did not fire exactly once in world {world_name}/"
                                     f"{prestate} (fired {len(fired)}x; rc={r['rc']}; stderr {r['err'][-300:]!r})")
            got_prefix = e3.redo_sequences([c for c in calls if c.lid == pt["lid"]], str(root)).get(pt["lid"], [])
            if [list(x) for x in got_prefix] != expect_prefix[:pt["k"] - 1]:
                raise MachineryError(f"crash run diverged from the count run before the kill point {pt['lid']}:{pt['k']}")
        tr["crash"] = {"rc": r["rc"], "watchdog": r["watchdog"], "had_survivors": r["had_survivors"],
                       "survivors_hung": r["survivors_hung"], "err": r["err"][-600:], "t": r["t_all"]}
        tr["after_crash_files"] = _contents(proj)
        tr["after_crash_tmps"] = e3.leftover_tmps(proj.p)
        tr["after_crash_locks"] = e3.held_locks(proj.p / ".redo" / "locks")
        proj.read_trace()
        if r["watchdog"]:
            fails.append("crashed-build-hung")
        listing = None
        if probe:
            # what do the query commands make of the state the crash left?
            listing = {}
            for q in ("sources", "targets", "ood"):
                qr = e3.run_session(["redo-" + q], proj.p, proj.env, root, "q" + q, timeout=RECOVERY_WATCHDOG)
                listing[q] = sorted(l.strip() for l in qr["out"].split("\n") if l.strip())
                if qr["watchdog"] or qr["rc"] != 0:
                    fails.append("query-fails-in-crash-state")
            tr["queries_after_crash"] = listing
            on_disk = {n for n, c in _contents(proj).items() if n in world.targets}
            # every target file on disk was put there by redo (the pre-states leave no hand-made file at a target's name)
            mine_as_source = sorted(on_disk & set(listing["sources"]))
            if mine_as_source:
                tr["own_output_listed_as_source"] = mine_as_source
                fails.append("crash-state-own-output-listed-as-source")
        # ---- recovery: just run it again ------------------------------------------------------
        rec = e3.run_session(BUILD, proj.p, proj.env, root, "rec", timeout=RECOVERY_WATCHDOG)
        tr["recovery"] = {"rc": rec["rc"], "watchdog": rec["watchdog"], "err": rec["err"][-1500:], "t": rec["t_all"],
                          "ran": [l for l in proj.read_trace() if l.startswith("B ")]}
        if listing is not None:
            reran = {l.split(" ")[1] for l in tr["recovery"]["ran"]}
            missed = sorted(t for t in reran if t in listing["targets"] and t not in listing["ood"])
            if missed:
                tr["rebuilt_but_not_listed_out_of_date"] = missed
                fails.append("crash-state-ood-misses-a-target-the-next-build-redoes")
        if rec["watchdog"]:
            fails.append("recovery-watchdog")
        elif rec["rc"] != 0:
            fails.append("recovery-exit-nonzero")
        if "you modified it" in rec["err"]:
            fails.append("recovery-takes-target-for-user-modified")
        bad = _check_contents(proj)
        tr["recovery"]["files"] = _contents(proj)
        if bad:
            tr["recovery"]["wrong"] = bad
            fails.append("recovery-wrong-content")
        # ---- targets keep reacting to source changes -------------------------------------------
        for src, newval in edits:
            proj.op(["edit", src, newval])
        ed = e3.run_session(BUILD, proj.p, proj.env, root, "edit", timeout=RECOVERY_WATCHDOG)
        tr["after_edit"] = {"edits": edits, "rc": ed["rc"], "watchdog": ed["watchdog"], "err": ed["err"][-1500:],
                            "ran": [l for l in proj.read_trace() if l.startswith("B ")]}
        if ed["watchdog"]:
            fails.append("edit-rebuild-watchdog")
        elif ed["rc"] != 0:
            fails.append("edit-rebuild-exit-nonzero")
        if "you modified it" in ed["err"]:
            fails.append("edit-rebuild-takes-target-for-user-modified")
        bad = _check_contents(proj)
        tr["after_edit"]["files"] = _contents(proj)
        if bad:
            tr["after_edit"]["wrong"] = bad
            fails.append("edit-rebuild-stale-content")
        ood = e3.run_session(["redo-ood"], proj.p, proj.env, root, "ood", timeout=RECOVERY_WATCHDOG)
        tr["ood"] = {"rc": ood["rc"], "out": ood["out"][-400:], "err": ood["err"][-400:]}
        # nothing that `top` needs may be listed (a target that an edit has just cut out of top's closure -- world dynamic --
        # is legitimately out of date: nobody asked for it)
        needed = set(oracles.closure_now(proj.model, ["top"]))
        listed = {l.strip() for l in ood["out"].split("\n") if l.strip()}
        if ood["watchdog"] or ood["rc"] != 0 or (listed & needed):
            fails.append("ood-not-empty")
        locks = e3.held_locks(proj.p / ".redo" / "locks")
        if locks:
            tr["locks_held"] = locks
            fails.append("lock-left-held")
        tmps = e3.leftover_tmps(proj.p)
        if tmps:
            tr["tmps_left"] = tmps
            fails.append("tmp-left-behind")
        tr["failures"] = fails
        tr["t"] = round(time.time() - t0, 3)
        return tr
    finally:
        shutil.rmtree(root, ignore_errors=True)


PRESTATES = {"chain": ("first", "incr", "rmtarget", "override-rm"), "csum-mid": ("first", "incr", "incr2", "rmtarget", "override-rm"),
             "default": ("first", "incr"), "takeover": ("first", "do-removed"), "chain-append": ("first", "incr"), "dynamic": ("first", "incr"),
             "csum-append": ("first", "incr", "incr2"), "chain+log": ("first", "incr"), "csum-mid+log": ("incr2",),
             "tolerant": ("first", "incr"), "tolerant-csum": ("first", "incr", "incr2")}


def plan(tier):
    """(world, pre-state, scope) combinations; scope "script" = the script-boundary kill points (whole tree)"""
    if tier == "quick":
        c = [(w, ps, sc) for w in ("chain", "csum-mid", "chain-append") for ps in PRESTATES[w] for sc in ("tree", "script")]
        c += [("takeover", "do-removed", sc) for sc in ("tree", "script")]
        c += [("chain", ps, "proc") for ps in ("first", "incr")]
        c += [("csum-append", ps, sc) for ps in PRESTATES["csum-append"] for sc in ("tree", "script", "sproc")]
        c += [(w, ps, "sproc") for w in ("csum-mid", "chain-append") for ps in PRESTATES[w]]
        c += [(w, ps, "tree+q") for w in ("chain", "csum-mid") for ps in PRESTATES[w]]
        c += [("chain+log", ps, sc) for ps in PRESTATES["chain+log"] for sc in ("tree", "proc")]
        # scripts that go on without a dependency whose redo-ifchange failed -- or was killed
        c += [(w, ps, "sproc") for w in ("tolerant", "tolerant-csum") for ps in PRESTATES[w]]
        return c, True
    return [(w, ps, sc) for w in PRESTATES for ps in PRESTATES[w] for sc in ("proc", "tree", "script", "sproc", "tree+q")], False


def signature(tr):
    return {"kind": tr["failures"][0], "world": tr["world"], "prestate": tr["prestate"], "scope": tr["scope"],
            "call": tr["call"], "path_class": tr["path_class"], "window": tr["window"]}


def main(tier):
    t0 = time.time()
    bindir = common.build_subject()
    e3.ensure_shim()
    root = common.scratch_root() / "c10"
    root.mkdir(parents=True, exist_ok=True)
    verdict = common.Verdict(PID)
    combos, quick = plan(tier)
    _init(str(bindir), str(root))
    counts = {}
    jobs = []
    try:
        with ProcessPoolExecutor(max_workers=min(16, common.NCPU), initializer=_init, initargs=(str(bindir), str(root))) as pool:
            keys = sorted({(w, ps) for w, ps, _ in combos})
            broken = set()
            for (w, ps), cr in zip(keys, pool.map(count_run, [k[0] for k in keys], [k[1] for k in keys])):
                if isinstance(cr, dict):
                    sig, detail = cr["subject_wrong"]
                    verdict.report(sig, {"engine": "E3", "world": w, "prestate": ps, "call": "none", **detail})
                    broken.add((w, ps))
                    continue
                counts[(w, ps)] = cr
            combos = [c for c in combos if (c[0], c[1]) not in broken]
            skeys = sorted({(w, ps) for w, ps, sc in combos if sc in ("script", "sproc")})
            spts = {}
            spts = dict(zip(skeys, pool.map(script_points, [k[0] for k in skeys], [k[1] for k in skeys])))
            for w, ps, sc in combos:
                pts, per_proc, seqs = counts[(w, ps)]
                if sc in ("script", "sproc"):
                    for pt in spts[(w, ps)]:
                        jobs.append((w, ps, "tree" if sc == "script" else "sproc", pt, None))
                    continue
                for pt in pts:
                    if quick and sc == "proc" and pt["lid"] != TOP_LID:
                        continue   # quick: process-only kills for the top process; thorough: every process
                    jobs.append((w, ps, sc, pt, seqs[pt["lid"]]))
            results = list(pool.map(crash_job, jobs, chunksize=2))
    finally:
        common.cleanup_scratch()
    windows = Counter()
    classes = set()
    bad_windows = Counter()
    survivors = Counter()
    samples = []
    nfail = 0
    for tr in results:
        cls = (tr["world"], tr["prestate"], tr["scope"], e3.role_of(tr["lid"]), tr["call"], tr["path_class"], tr["window"])
        classes.add(cls)
        windows[tr["window"]] += 1
        if tr["crash"]["had_survivors"]:
            survivors["crash runs with survivors"] += 1
        if tr["crash"]["survivors_hung"]:
            survivors["survivors had to be killed after 15 s"] += 1
        if tr["failures"]:
            nfail += 1
            bad_windows[tr["window"]] += 1
            verdict.report(signature(tr), {"engine": "E3", **tr})
    for tr in results:
        if len(samples) < 3 and (tr["k"] > 1 and tr["path_class"] in ("target", "tmp", "db-wal")) and \
                not any(s["window"] == tr["window"] for s in samples):
            samples.append({k: tr[k] for k in ("world", "prestate", "scope", "lid", "k", "call", "path_class", "window",
                                              "failures")} | {"crash_rc": tr["crash"]["rc"],
                                                              "recovery_rc": tr["recovery"]["rc"],
                                                              "recovery_ran": tr["recovery"]["ran"],
                                                              "after_edit_ran": tr["after_edit"]["ran"]})
    cov = {
        "evaluations": len(results),
        "distinct_nontrivial": len(classes),
        "rule": "every (logical redo process P, k) with k = 1..N_P, N_P = number of state-changing libc calls P issued in "
                "the counting run (performed twice, sequences must agree modulo pids and temp names), times the listed "
                "scopes; each crash point is run in a fresh project, followed by recovery, edit+rebuild, redo-ood, lock "
                "sweep, temp sweep. distinct_nontrivial = number of distinct (world, pre-state, scope, process role, "
                "call kind, path class, window) classes among the executed crash points (every crash point changes the "
                "outcome of the killed build; none is a no-op)",
        "samples": samples or [{k: results[0][k] for k in ("world", "prestate", "scope", "lid", "k", "call", "window")}],
        "exhaustive": True,
        "crash_points_per_process": {f"{w}/{ps}": per for (w, ps), (_p, per, _s) in counts.items()},
        "crash_points_per_combo": {f"{w}/{ps}": len(p) for (w, ps), (p, _per, _s) in counts.items()},
        "script_boundary_kill_points_per_combo": {f"{w}/{ps}": len(p) for (w, ps), p in spts.items()},
        "scopes": sorted({sc for _, _, sc in combos}),
        "quick_restriction": "scope proc only for the top process" if quick else None,
        "windows": dict(windows),
        "windows_with_failures": dict(bad_windows),
        "crash_points_failing": nfail,
        "survivors": dict(survivors),
        "count_runs_agree": True,
    }
    rc = verdict.finish()
    common.write_evidence(PID, tier, "fault_enumeration", cov, time.time() - t0, verdict.count, [
        "builds run at -j1 with REDO_LOG=0, so each process's call sequence is deterministic (checked: two counting "
        "runs agree; every crash run's prefix equals the counting run's)",
        "crash instants are the boundaries immediately before state-changing libc calls of redo processes (rename*, "
        "unlink*, rmdir, link*, symlink*, mkdir*, open*/creat with a write/create/trunc flag, write-family on regular "
        "files, truncate*); stores through the mmap'ed -shm wal-index cannot be intercepted",
        "a kill is SIGKILL of the process (scope proc) or of the invocation's process group (scope tree); no power-loss "
        "model: the page cache survives, so synchronous=off is not exercised",
        "besides the libc-call boundaries, the whole tree is also killed at script boundaries (script start, after each "
        "dependency request, after the output was written): instants at which redo itself only waits; scope sproc kills, at "
        "the same instants, only the redo process that runs the script -- the orphaned script carries on (after the rest "
        "of the invocation has ended) up to its own end, redo-stamp included",
        "worlds x pre-states: " + "; ".join("%s: %s" % (w, ",".join(sorted({ps for w2, ps, _ in combos if w2 == w}))) for w in sorted({w for w, _, _ in combos})),
    ])
    print(f"[{PID}] tier={tier} crash_points={len(results)} classes={len(classes)} failing={nfail} "
          f"known={sum(verdict.known_hits.values())} new={verdict.count} wall={time.time()-t0:.1f}s")
    return rc


def replay(path):
    doc = json.load(open(path))
    bindir = common.build_subject()
    e3.ensure_shim()
    root = common.scratch_root() / "c10"
    root.mkdir(parents=True, exist_ok=True)
    _init(str(bindir), str(root))
    try:
        if doc.get("call") == "script-kill":
            pt = next(p for p in script_points(doc["world"], doc["prestate"]) if p["lid"] == doc["lid"] and p["k"] == doc["k"])
            tr = crash_job((doc["world"], doc["prestate"], "sproc" if doc.get("scope") == "sproc" else "tree", pt, None))
        else:
            pts, per, seqs = count_run(doc["world"], doc["prestate"])
            pt = next(p for p in pts if p["lid"] == doc["lid"] and p["k"] == doc["k"])
            tr = crash_job((doc["world"], doc["prestate"], doc["scope"], pt, seqs[pt["lid"]]))
    finally:
        common.cleanup_scratch()
    print(json.dumps(tr, indent=1, default=str))
    if tr["failures"]:
        print("VIOLATION-REPLAYED", tr["failures"])
        return 1
    return 0
