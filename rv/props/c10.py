"""C10 -- a kill at any moment is recovered from by simply running redo again (engine E3).

For every crash point (logical redo process P, k-th state-changing libc call) of `redo-ifchange top`
(REDO_LOG=0, -j1), for scope in {proc: only P dies, tree: the whole process group dies}:
  fresh project -> pre-state -> build under the shim with RVSHIM_KILL -> wait until no process of the
  invocation's session is left -> recovery `redo-ifchange top` (watchdog 30 s, exit 0, closure == from-scratch
  evaluation, no "you modified it") -> edit the source -> `redo-ifchange top` again (exit 0, contents) ->
  `redo-ood` prints nothing -> no byte of .redo/locks is locked -> no *.redo.tmp left.
"""
import json
import os
import shutil
import time
from collections import Counter
from concurrent.futures import ProcessPoolExecutor
from pathlib import Path

from .. import common, e3, oracles, worlds
from ..common import MachineryError
from ..e1 import Project
from ..refmodel import FAIL

PID = "C10"
BUILD = ["redo-ifchange", "top"]
RECOVERY_WATCHDOG = 30.0
TOP_LID = "redo-ifchange,top#1"

_W = {}


def _init(bindir, root):
    _W["bindir"] = bindir
    _W["root"] = Path(root)


def _src(world):
    s = next(iter(world.sources))
    return s, world.sources[s]


def _mkproj(world, tag):
    root = _W["root"] / f"{tag}_{os.getpid()}_{time.monotonic_ns()}"
    root.mkdir(parents=True)
    return Project(world, _W["bindir"], root), root


def _reach(proj, world, prestate):
    """reach the pre-state; returns the edits [(source, value)] to apply *after* the recovery: every source gets
    another value, so every target of the closure has to react"""
    s, alpha = _src(world)
    others = [(o, a[1]) for o, a in world.sources.items() if o != s and o not in world.absent]
    if prestate == "first":
        return [(s, alpha[1])] + others
    if prestate == "incr":
        obs = proj.op(["ifchange", ["top"]])
        if obs["rc"] != 0:
            raise MachineryError(f"pre-state build failed in world {world.name}: {obs['err'][-300:]}")
        bad = oracles.check_content(proj, obs)
        if bad:
            raise MachineryError(f"pre-state build wrong in world {world.name}: {bad}")
        proj.op(["edit", s, alpha[1]])
        return [(s, alpha[2] if len(alpha) > 2 else alpha[0])] + others
    raise MachineryError("unknown prestate " + prestate)


def _contents(proj):
    return {n: c for n, (c, _ino) in proj.snapshot().items()}


def _check_contents(proj):
    m = proj.model
    snap = _contents(proj)
    bad = []
    for x in oracles.closure_now(m, ["top"]):
        want = m.evaluate(x)
        got = snap.get(x)
        if want is FAIL:
            raise MachineryError(f"world {proj.w.name}: {x} is not buildable in the reference")
        if got != want:
            bad.append({"target": x, "want": want, "got": got})
    return bad


def count_run(world_name, prestate):
    """two counting runs; returns (crash points, per-process call counts, normalised sequences)"""
    world = worlds.curated()[world_name]
    runs = []
    for i in range(2):
        proj, root = _mkproj(world, "cnt")
        try:
            _reach(proj, world, prestate)
            env, log, procs = e3.shim_env(proj.env, root, "count")
            r = e3.run_session(BUILD, proj.p, env, root, "count", timeout=60)
            if r["rc"] != 0 or r["watchdog"]:
                raise MachineryError(f"count run failed (world {world_name}, {prestate}): rc={r['rc']} {r['err'][-300:]}")
            bad = _check_contents(proj)
            if bad:
                raise MachineryError(f"count run built wrong contents under the shim: {bad}")
            calls = e3.parse_log(log)
            runs.append((calls, str(root), e3.parse_procs(procs)))
        finally:
            shutil.rmtree(root, ignore_errors=True)
    seqs = e3.compare_counts(runs[0][0], runs[0][1], runs[1][0], runs[1][1])
    calls, root, procs = runs[0]
    pts = e3.crash_points(calls, root, targets=set(world.targets), sources=set(world.sources))
    redo_lids = [p["lid"] for p in procs if p["exe"].startswith("redo")]
    per = Counter(p["lid"] for p in pts)
    per_proc = {lid: per.get(lid, 0) for lid in redo_lids}
    return pts, per_proc, {lid: [list(x) for x in s] for lid, s in seqs.items()}


def crash_job(args):
    world_name, prestate, scope, pt, expect_prefix = args
    world = worlds.curated()[world_name]
    proj, root = _mkproj(world, "crash")
    t0 = time.time()
    fails = []
    tr = {"world": world_name, "prestate": prestate, "scope": scope, "lid": pt["lid"], "k": pt["k"],
          "call": pt["call"], "path_class": pt["path_class"], "window": pt["window"]}
    try:
        edits = _reach(proj, world, prestate)
        env, log, procs = e3.shim_env(proj.env, root, "crash", kill=(pt["lid"], pt["k"], scope))
        r = e3.run_session(BUILD, proj.p, env, root, "crash", timeout=60, survivors_timeout=15)
        calls = e3.parse_log(log)
        fired = [c for c in calls if c.call == "KILL" and c.lid == pt["lid"] and c.idx == pt["k"]]
        if len(fired) != 1:
            raise MachineryError(f"kill {pt['lid']}:{pt['k']}:{scope} did not fire exactly once in world {world_name}/"
                                 f"{prestate} (fired {len(fired)}x; rc={r['rc']}; stderr {r['err'][-300:]!r})")
        got_prefix = e3.redo_sequences([c for c in calls if c.lid == pt["lid"]], str(root)).get(pt["lid"], [])
        if [list(x) for x in got_prefix] != expect_prefix[:pt["k"] - 1]:
            raise MachineryError(f"crash run diverged from the count run before the kill point {pt['lid']}:{pt['k']}")
        tr["crash"] = {"rc": r["rc"], "watchdog": r["watchdog"], "had_survivors": r["had_survivors"],
                       "survivors_hung": r["survivors_hung"], "err": r["err"][-600:], "t": r["t_all"]}
        tr["after_crash_files"] = _contents(proj)
        tr["after_crash_tmps"] = e3.leftover_tmps(proj.p)
        tr["after_crash_locks"] = e3.held_locks(proj.p / ".redo" / "locks")
        proj.read_trace()
        if r["watchdog"]:
            fails.append("crashed-build-hung")
        # ---- recovery: just run it again ------------------------------------------------------
        rec = e3.run_session(BUILD, proj.p, proj.env, root, "rec", timeout=RECOVERY_WATCHDOG)
        tr["recovery"] = {"rc": rec["rc"], "watchdog": rec["watchdog"], "err": rec["err"][-1500:], "t": rec["t_all"],
                          "ran": [l for l in proj.read_trace() if l.startswith("B ")]}
        if rec["watchdog"]:
            fails.append("recovery-watchdog")
        elif rec["rc"] != 0:
            fails.append("recovery-exit-nonzero")
        if "you modified it" in rec["err"]:
            fails.append("recovery-takes-target-for-user-modified")
        bad = _check_contents(proj)
        tr["recovery"]["files"] = _contents(proj)
        if bad:
            tr["recovery"]["wrong"] = bad
            fails.append("recovery-wrong-content")
        # ---- targets keep reacting to source changes -------------------------------------------
        for src, newval in edits:
            proj.op(["edit", src, newval])
        ed = e3.run_session(BUILD, proj.p, proj.env, root, "edit", timeout=RECOVERY_WATCHDOG)
        tr["after_edit"] = {"edits": edits, "rc": ed["rc"], "watchdog": ed["watchdog"], "err": ed["err"][-1500:],
                            "ran": [l for l in proj.read_trace() if l.startswith("B ")]}
        if ed["watchdog"]:
            fails.append("edit-rebuild-watchdog")
        elif ed["rc"] != 0:
            fails.append("edit-rebuild-exit-nonzero")
        if "you modified it" in ed["err"]:
            fails.append("edit-rebuild-takes-target-for-user-modified")
        bad = _check_contents(proj)
        tr["after_edit"]["files"] = _contents(proj)
        if bad:
            tr["after_edit"]["wrong"] = bad
            fails.append("edit-rebuild-stale-content")
        ood = e3.run_session(["redo-ood"], proj.p, proj.env, root, "ood", timeout=RECOVERY_WATCHDOG)
        tr["ood"] = {"rc": ood["rc"], "out": ood["out"][-400:], "err": ood["err"][-400:]}
        if ood["watchdog"] or ood["rc"] != 0 or ood["out"].strip():
            fails.append("ood-not-empty")
        locks = e3.held_locks(proj.p / ".redo" / "locks")
        if locks:
            tr["locks_held"] = locks
            fails.append("lock-left-held")
        tmps = e3.leftover_tmps(proj.p)
        if tmps:
            tr["tmps_left"] = tmps
            fails.append("tmp-left-behind")
        tr["failures"] = fails
        tr["t"] = round(time.time() - t0, 3)
        return tr
    finally:
        shutil.rmtree(root, ignore_errors=True)


def plan(tier):
    if tier == "quick":
        return [("chain", ps, sc) for ps in ("first", "incr") for sc in ("tree", "proc")], True
    return [(w, ps, sc) for w in ("chain", "csum-mid", "default") for ps in ("first", "incr") for sc in ("proc", "tree")], False


def signature(tr):
    return {"kind": tr["failures"][0], "world": tr["world"], "prestate": tr["prestate"], "scope": tr["scope"],
            "call": tr["call"], "path_class": tr["path_class"], "window": tr["window"]}


def main(tier):
    t0 = time.time()
    bindir = common.build_subject()
    e3.ensure_shim()
    root = common.scratch_root() / "c10"
    root.mkdir(parents=True, exist_ok=True)
    verdict = common.Verdict(PID)
    combos, quick = plan(tier)
    _init(str(bindir), str(root))
    counts = {}
    jobs = []
    try:
        with ProcessPoolExecutor(max_workers=min(16, common.NCPU), initializer=_init, initargs=(str(bindir), str(root))) as pool:
            keys = sorted({(w, ps) for w, ps, _ in combos})
            for (w, ps), (pts, per_proc, seqs) in zip(keys, pool.map(count_run, [k[0] for k in keys], [k[1] for k in keys])):
                counts[(w, ps)] = (pts, per_proc, seqs)
            for w, ps, sc in combos:
                pts, per_proc, seqs = counts[(w, ps)]
                for pt in pts:
                    if quick and sc == "proc" and pt["lid"] != TOP_LID:
                        continue   # quick: process-only kills for the top process; thorough: every process
                    jobs.append((w, ps, sc, pt, seqs[pt["lid"]]))
            results = list(pool.map(crash_job, jobs, chunksize=2))
    finally:
        common.cleanup_scratch()
    windows = Counter()
    classes = set()
    bad_windows = Counter()
    survivors = Counter()
    samples = []
    nfail = 0
    for tr in results:
        cls = (tr["world"], tr["prestate"], tr["scope"], e3.role_of(tr["lid"]), tr["call"], tr["path_class"], tr["window"])
        classes.add(cls)
        windows[tr["window"]] += 1
        if tr["crash"]["had_survivors"]:
            survivors["crash runs with survivors"] += 1
        if tr["crash"]["survivors_hung"]:
            survivors["survivors had to be killed after 15 s"] += 1
        if tr["failures"]:
            nfail += 1
            bad_windows[tr["window"]] += 1
            verdict.report(signature(tr), {"engine": "E3", **tr})
    for tr in results:
        if len(samples) < 3 and (tr["k"] > 1 and tr["path_class"] in ("target", "tmp", "db-wal")) and \
                not any(s["window"] == tr["window"] for s in samples):
            samples.append({k: tr[k] for k in ("world", "prestate", "scope", "lid", "k", "call", "path_class", "window",
                                              "failures")} | {"crash_rc": tr["crash"]["rc"],
                                                              "recovery_rc": tr["recovery"]["rc"],
                                                              "recovery_ran": tr["recovery"]["ran"],
                                                              "after_edit_ran": tr["after_edit"]["ran"]})
    cov = {
        "evaluations": len(results),
        "distinct_nontrivial": len(classes),
        "rule": "every (logical redo process P, k) with k = 1..N_P, N_P = number of state-changing libc calls P issued in "
                "the counting run (performed twice, sequences must agree modulo pids and temp names), times the listed "
                "scopes; each crash point is run in a fresh project, followed by recovery, edit+rebuild, redo-ood, lock "
                "sweep, temp sweep. distinct_nontrivial = number of distinct (world, pre-state, scope, process role, "
                "call kind, path class, window) classes among the executed crash points (every crash point changes the "
                "outcome of the killed build; none is a no-op)",
        "samples": samples or [{k: results[0][k] for k in ("world", "prestate", "scope", "lid", "k", "call", "window")}],
        "exhaustive": True,
        "crash_points_per_process": {f"{w}/{ps}": per for (w, ps), (_p, per, _s) in counts.items()},
        "crash_points_per_combo": {f"{w}/{ps}": len(p) for (w, ps), (p, _per, _s) in counts.items()},
        "scopes": sorted({sc for _, _, sc in combos}),
        "quick_restriction": "scope proc only for the top process" if quick else None,
        "windows": dict(windows),
        "windows_with_failures": dict(bad_windows),
        "crash_points_failing": nfail,
        "survivors": dict(survivors),
        "count_runs_agree": True,
    }
    rc = verdict.finish()
    common.write_evidence(PID, tier, "fault_enumeration", cov, time.time() - t0, verdict.count, [
        "builds run at -j1 with REDO_LOG=0, so each process's call sequence is deterministic (checked: two counting "
        "runs agree; every crash run's prefix equals the counting run's)",
        "crash instants are the boundaries immediately before state-changing libc calls of redo processes (rename*, "
        "unlink*, rmdir, link*, symlink*, mkdir*, open*/creat with a write/create/trunc flag, write-family on regular "
        "files, truncate*); stores through the mmap'ed -shm wal-index cannot be intercepted",
        "a kill is SIGKILL of the process (scope proc) or of the invocation's process group (scope tree); no power-loss "
        "model: the page cache survives, so synchronous=off is not exercised",
        "worlds: chain, csum-mid, default (thorough); chain (quick)",
    ])
    print(f"[{PID}] tier={tier} crash_points={len(results)} classes={len(classes)} failing={nfail} "
          f"known={sum(verdict.known_hits.values())} new={verdict.count} wall={time.time()-t0:.1f}s")
    return rc


def replay(path):
    doc = json.load(open(path))
    bindir = common.build_subject()
    e3.ensure_shim()
    root = common.scratch_root() / "c10"
    root.mkdir(parents=True, exist_ok=True)
    _init(str(bindir), str(root))
    try:
        pts, per, seqs = count_run(doc["world"], doc["prestate"])
        pt = next(p for p in pts if p["lid"] == doc["lid"] and p["k"] == doc["k"])
        tr = crash_job((doc["world"], doc["prestate"], doc["scope"], pt, seqs[pt["lid"]]))
    finally:
        common.cleanup_scratch()
    print(json.dumps(tr, indent=1, default=str))
    if tr["failures"]:
        print("VIOLATION-REPLAYED", tr["failures"])
        return 1
    return 0
