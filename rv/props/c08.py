"""C08 -- job tokens are conserved and -j is respected (engine E2 with the harness as jobserver parent)."""
import re

from .. import e2prop
from ..e2 import scenarios as SC
from .c06 import abort_world

PID = "C08"
VIS = SC.TOKENS + ["lock-try"]


def cheat_worlds():
    """Token cheating (log capture on): `b` is the first target, so redo-log follows it.  a's chain gets x first; b's
    redo-ifchange finds x locked, hands its token back and waits; the top level uses that token for c; x finishes while a
    and c are still busy (scripts that wait for b), so when b's redo-ifchange gets the lock no token is to be had: it
    cheats.  In `cheat-uptodate` x is then up to date (the cheater exits holding the borrowed token); in `cheat-builds`
    b asked with `redo x`, so the cheater builds x itself with the borrowed token."""
    from ..worlds import S, World
    common_ = {
        "x.do": [S(deps=["s"], sync=(("start", "set", "x-started"), ("mid", "wait", "c-started")))],
        "a.do": [S(deps=["x"], sync=(("mid", "wait", "b-done"),))],
        "c.do": [S(deps=["s"], out="file", sync=(("start", "set", "c-started"), ("mid", "wait", "b-done")))],
    }
    w1 = World("cheat-uptodate", {"s": ["0", "1"]},
               dict(common_, **{"b.do": [S(deps=["x"], sync=(("start", "wait", "x-started"), ("end", "set", "b-done")))]}),
               ["a", "b", "c", "x"], ["a", "b", "c"])
    w2 = World("cheat-builds", {"s": ["0", "1"]},
               dict(common_, **{"b.do": [S(seq=(("redo", ("x",)),), sync=(("start", "wait", "x-started"), ("end", "set", "b-done")))]}),
               ["a", "b", "c", "x"], ["a", "b", "c"])
    # as cheat-uptodate, but b's script then starts a redo of its own that knows nothing of the jobserver above it (MAKEFLAGS
    # removed): a separate one-token jobserver -- which must not share the outer build's cheat pipe either
    w3 = World("cheat-then-fresh-redo", {"s": ["0", "1"]},
               dict(common_, **{"b.do": [S(seq=(("ifchange", ("x",)), ("redo-fresh", ("inner",))),
                                           sync=(("start", "wait", "x-started"), ("end", "set", "b-done")))],
                                "inner.do": [S(deps=["s"], out="file")]}),
               ["a", "b", "c", "x", "inner"], ["a", "b", "c"])
    w4 = World("cheat-then-nested-j2", {"s": ["0", "1"]},
               dict(common_, **{"b.do": [S(seq=(("ifchange", ("x",)), ("redo-j2", ("inner",))),
                                           sync=(("start", "wait", "x-started"), ("end", "set", "b-done")))],
                                "inner.do": [S(deps=["s"], out="file")]}),
               ["a", "b", "c", "x", "inner"], ["a", "b", "c"])
    return w1, w2, w3, w4


def scenarios(tier):
    w = SC.W()
    q = tier == "quick"
    L = []
    cw1, cw2, cw3, cw4 = cheat_worlds()
    L.append((SC.scn("own-log-cheat-uptodate-j2", cw1, ["redo -j2 b a c"], visible=VIS, limit=2, log_mode=True), 1 if q else 2))
    L.append((SC.scn("own-log-cheat-builds-j2", cw2, ["redo -j2 b a c"], visible=VIS, limit=2, log_mode=True), 1 if q else 2))
    L.append((SC.scn("own-log-cheat-then-fresh-redo-j2", cw3, ["redo -j2 b a c"], visible=VIS, limit=3, log_mode=True), 0 if q else 1))
    L.append((SC.scn("own-log-cheat-then-nested-j2", cw4, ["redo -j2 b a c"], visible=VIS, limit=4, log_mode=True), 0 if q else 1))
    # the same under an inherited jobserver: the pipe must hold exactly N-1 tokens and no cheat byte afterwards
    L.append((SC.scn("inherit-log-cheat-uptodate-n2", cw1, ["redo-ifchange b a c"], visible=VIS, jobserver=2, limit=2, log_mode=True), 0 if q else 1))
    L.append((SC.scn("inherit-log-cheat-builds-n2", cw2, ["redo-ifchange b a c"], visible=VIS, jobserver=2, limit=2, log_mode=True), 0 if q else 1))
    # ... and under a parent that is a real GNU make: only MAKEFLAGS is inherited, no cheat pipe
    L.append((SC.scn("make-log-cheat-uptodate-n2", cw1, ["redo-ifchange b a c"], visible=VIS, jobserver=2, limit=2, log_mode=True,
                     no_cheatfds=True, make_player=1), 1))
    L.append((SC.scn("make-log-cheat-builds-n2", cw2, ["redo-ifchange b a c"], visible=VIS, jobserver=2, limit=2, log_mode=True,
                     no_cheatfds=True, make_player=1), 0 if q else 1))
    # a redo under a real make parent whose only job waits for a target that an INDEPENDENT redo (own jobserver) is building:
    # the sub-redo hands its token back, make may give it to somebody else, the sub-redo cheats once the lock is free.  When
    # everything has exited make must have exactly the tokens it started with.
    from ..worlds import S, World
    mw = World("make-one-job", {"s": ["0", "1"]},
               {"x.do": [S(deps=["s"], sync=(("start", "set", "x-started"), ("mid", "wait", "b-started")))],
                "b.do": [S(deps=["x"], sync=(("start", "wait", "x-started"), ("start", "set", "b-started")))]},
               ["x", "b"], ["b"])
    L.append((SC.scn("make-parent-takes-the-handed-back-token-n1", mw,
                     [{"name": "T0", "argv": ["redo", "--no-log", "x"], "env": {"MAKEFLAGS": ""}}, {"name": "T1", "argv": ["redo-ifchange", "b"]}],
                     visible=VIS, jobserver=1, limit=2, log_mode=True, no_cheatfds=True, make_player=1), 1 if q else 2))
    # the same, and then the build FAILS (b's script fails after its sub-redo left on a borrowed slot): the settling with the
    # make parent must not depend on the outcome
    mwf = World("make-one-job-fails", {"s": ["0", "1"], "flag": ["1", "0"]},
                {"x.do": [S(deps=["s"], sync=(("start", "set", "x-started"), ("mid", "wait", "b-started")))],
                 "b.do": [S(deps=["x"], fail="flag", sync=(("start", "wait", "x-started"), ("start", "set", "b-started")))]},
                ["x", "b"], ["b"])
    L.append((SC.scn("make-parent-takes-the-handed-back-token-then-failure-n1", mwf,
                     [{"name": "T0", "argv": ["redo", "--no-log", "x"], "env": {"MAKEFLAGS": ""}}, {"name": "T1", "argv": ["redo-ifchange", "b"]}],
                     visible=VIS, jobserver=1, limit=2, log_mode=True, no_cheatfds=True, make_player=1, may_fail=True), 1 if q else 2))
    # a `make -j2` in the MIDDLE (redo -> script -> make -j2 -> +redo-ifchange z): the inner redo joins make's token pipe; the
    # cheat pipe it finds in its environment belongs to the redo ABOVE make and is none of its business.  z is locked by an
    # independent redo; the inner redo hands its slot back to make, make starts another recipe on it; when z is free make's
    # pipe is empty (until that recipe ends): the inner redo may borrow a slot (the log viewer follows it).  When all is over
    # make must find its N-1 tokens, and the outer redo its own.
    mm = World("make-in-the-middle", {"s": ["0", "1"]},
               {"z.do": [S(deps=["s"], sync=(("start", "set", "z-started"), ("mid", "wait", "make-took"), ("end", "set", "make-release")))],
                "m.do": [S(seq=(("make-j2", ("z",)),), sync=(("start", "wait", "z-started"),))]},
               ["z", "m"], ["m"])
    L.append((SC.scn("make-in-the-middle-j2", mm,
                     [{"name": "T0", "argv": ["redo", "--no-log", "z"], "env": {"MAKEFLAGS": ""}}, {"name": "T1", "argv": ["redo", "-j2", "m"]}],
                     visible=VIS, limit=3, log_mode=True), 1 if q else 2))
    L.append((SC.scn("make-failshared-n2", w["failshared"], ["redo-ifchange a b"], visible=VIS, jobserver=2, limit=2, may_fail=True,
                     no_cheatfds=True, make_player=1), 1 if q else 2))
    L.append((SC.scn("make-log-failshared-n2", w["failshared"], ["redo-ifchange a b"], visible=VIS, jobserver=2, limit=2, may_fail=True,
                     no_cheatfds=True, log_mode=True), 0 if q else 1))
    # an error exit of a special kind: a sub-redo cannot start its job at all (no file descriptors left for the job's pipe);
    # the script that asked goes on without the dependency.  Whatever happens, the tokens are all there at the end.
    uw = World("nofds", {"s": ["0", "1"]},
               {"all.do": [S(deps=["x"], tolerant=True, ulimit_n=45)], "x.do": [S(deps=["s"], out="file")], "y.do": [S(deps=["s"])]},
               ["all", "x", "y"], ["all"])
    L.append((SC.scn("own-job-cannot-be-started-j3", uw, ["redo --no-log -j3 all y"], visible=VIS, limit=3, may_fail=True), 0 if q else 1))
    L.append((SC.scn("inherit-job-cannot-be-started-n3", uw, ["redo-ifchange all y"], visible=VIS, jobserver=3, limit=3, may_fail=True), 0 if q else 1))
    # own jobserver: redo -jN creates the pipes and checks itself on exit
    L.append((SC.scn("own-fan3-j2", w["fan3"], ["redo --no-log -j2 top"], visible=VIS, limit=2), 1 if q else 2))
    L.append((SC.scn("own-fan3x2-j2", w["fan3x2"], ["redo --no-log -j2 t1 t2"], visible=VIS, limit=2), 1 if q else 2))
    L.append((SC.scn("own-failfan-j2", w["failfan"], ["redo --no-log -j2 top"], visible=VIS, limit=2, may_fail=True), 1 if q else 2))
    L.append((SC.scn("own-error-exit-j2", abort_world(), ["redo --no-log -j2 a"], visible=VIS, limit=2, may_fail=True), 1 if q else 2))
    L.append((SC.scn("own-failshared-j2", w["failshared"], ["redo --no-log -j2 a b"], visible=VIS, limit=2, may_fail=True), 1 if q else 2))
    L.append((SC.scn("inherit-failshared-n2", w["failshared"], ["redo-ifchange a b"], visible=VIS, jobserver=2, limit=2, may_fail=True),
              1 if q else 2))
    # inherited (GNU make style) jobserver: the harness owns the pipes
    L.append((SC.scn("inherit-fan3-n2", w["fan3"], ["redo-ifchange top"], visible=VIS, jobserver=2, limit=2), 1 if q else 2))
    L.append((SC.scn("inherit-cross-n2", w["cross"], ["redo-ifchange p q"], visible=VIS, jobserver=2, limit=2), 1 if q else 2))
    # an explicit -j1 under a parent jobserver that has spare tokens: the user asked for a serial build, so this redo runs
    # its own one-token jobserver; the parent's pipe still holds what it held
    L.append((SC.scn("inherit-n2-explicit-j1-fan3", w["fan3"], ["redo --no-log -j1 top"], visible=VIS, jobserver=2, limit=1), 1))
    # tokens are bytes of any value: a parent whose tokens are NUL bytes (and one that writes '+' like GNU make)
    L.append((SC.scn("inherit-fan3-n2-nul-tokens", w["fan3"], ["redo-ifchange top"], visible=VIS, jobserver=2, limit=2,
                     token_byte=b"\0"), 0 if q else 1))
    L.append((SC.scn("inherit-fan3-n3-plus-tokens", w["fan3"], ["redo-ifchange top"], visible=VIS, jobserver=3, limit=3,
                     token_byte=b"+"), 0 if q else 1))
    # the make parent competes: it may take a token out of the pipe at any step and return it later (forced when
    # nothing else can run) -- "token stolen between select and read", starvation and hand-back paths
    L.append((SC.scn("inherit-fan3-n2-make-competes", w["fan3"], ["redo-ifchange top"], visible=VIS, jobserver=2, limit=2,
                     make_player=1), 1 if q else 2))
    # log capture on: redo-log follows the build, which enables token cheating for the foreground job
    L.append((SC.scn("own-log-fan3-j2", w["fan3"], ["redo -j2 top"], visible=VIS, limit=2, log_mode=True), 1 if q else 2))
    if not q:
        L.append((SC.scn("own-fan3-j1", w["fan3"], ["redo --no-log -j1 top"], visible=VIS, limit=1), 2))
        L.append((SC.scn("own-fan3-j3", w["fan3"], ["redo --no-log -j3 top"], visible=VIS, limit=3), 2))
        L.append((SC.scn("inherit-fan3-n1", w["fan3"], ["redo-ifchange top"], visible=VIS, jobserver=1, limit=1), 2))
        L.append((SC.scn("inherit-fan3-n3", w["fan3"], ["redo-ifchange top"], visible=VIS, jobserver=3, limit=3), 2))
        L.append((SC.scn("inherit-failfan-n2", w["failfan"], ["redo-ifchange top"], visible=VIS, jobserver=2, limit=2, may_fail=True), 2))
        L.append((SC.scn("inherit-error-exit-n2", abort_world(), ["redo-ifchange a"], visible=VIS, jobserver=2, limit=2, may_fail=True), 2))
        L.append((SC.scn("inherit-log-diamond-n2", w["diamond"], ["redo-ifchange top"], visible=VIS, jobserver=2, limit=2, log_mode=True), 2))
        L.append((SC.scn("inherit-fan3-n3-make-competes", w["fan3"], ["redo-ifchange top"], visible=VIS, jobserver=3, limit=3,
                         make_player=2), 2))
        L.append((SC.scn("inherit-failshared-n2-make-competes", w["failshared"], ["redo-ifchange a b"], visible=VIS, jobserver=2,
                         limit=2, may_fail=True, make_player=1), 2))
        L.append((SC.scn("inherit-two-invocations-n2", w["shared"], ["redo-ifchange t1", "redo-ifchange t2"], visible=VIS, jobserver=2, limit=3), 2))
    return L


SELFTEST = re.compile(r"on exit: expected \d+ tokens; found|unexpected error|unexpected EOF on token read|JobServer deadlock")


def oracle(scn, res):
    out = []
    if res["verdict"] != "done":
        return out
    # (1) the limit: scripts doing work at the same time <= N (+1 only if a cheat token was granted)
    cheated = any(kind == "cheat" for _st, _lid, kind, _d in res["events"]) or \
        any("ch=1" in s["detail"] or "ch=2" in s["detail"] for s in res["steps"] if s["kind"] == "select")
    openw = set()
    peak = 0
    for step, lid, kind, detail in res["events"]:
        if kind != "script":
            continue
        what = detail.split(" ", 1)[0]
        if what == "work-begin":
            openw.add(lid)
            peak = max(peak, len(openw))
        elif what in ("work-end", "end"):
            openw.discard(lid)
    limit = scn["limit"] + (1 if cheated else 0)
    if peak > limit:
        out.append(({"kind": "more-scripts-working-than-tokens", "scenario": scn["name"], "peak": peak, "limit": limit}, {"cheated": cheated}))
    # (2) conservation
    for n, rc in res["roots"].items():
        err = res["stderr"].get(n, "")
        m = SELFTEST.search(err)
        if m:
            out.append(({"kind": "token-self-check-failed", "scenario": scn["name"], "msg": m.group(0)[:40]}, {"stderr": err[-600:]}))
        if rc != 0 and not scn.get("may_fail"):
            out.append(({"kind": "all-scripts-succeed-but-exit-nonzero", "scenario": scn["name"], "rc": rc}, {"stderr": err[-600:]}))
    for step, lid, kind, detail in res["events"]:
        if kind == "toplevel-tokens":
            d = dict(x.split("=") for x in detail.split(" "))
            if int(d["tokens"]) - int(d["cheats"]) != int(d["expect"]):
                out.append(({"kind": "toplevel-token-count-wrong", "scenario": scn["name"], "detail": detail}, {}))
    # a make in the middle counts its tokens when it exits (shim/rvmake writes `M <found> <expected>`)
    for l in res["trace"]:
        if l.startswith("M "):
            _m, found, expected = l.split(" ")
            if found != expected:
                out.append(({"kind": "make-in-the-middle-ends-with-wrong-token-count", "scenario": scn["name"], "found": int(found),
                             "expected": int(expected)}, {"roots": res["roots"], "stderr": res["stderr"].get("T1", "")[-500:]}))
    js = res.get("jobserver")
    if js:
        # The harness stands where a redo stands that runs the command as (part of) one job.  Such a redo, when the job
        # ends, takes ONE byte off the cheat pipe if there is one and then keeps the job's token instead of giving it back:
        # one cheat byte next to one token too many is a settled account (a sub-redo left on a borrowed slot and its own
        # runner had looked at the cheat pipe just before -- two deviations deep).  More than one byte, or a difference
        # that the byte does not explain, is not.  (A make parent has no cheat pipe: there every token counts.)
        cheats = js["cheats_left"] if not scn.get("no_cheatfds") else 0
        if js["tokens_left"] - min(cheats, 1) != js["initial_tokens"]:
            out.append(({"kind": "inherited-tokens-not-returned", "scenario": scn["name"], "left": js["tokens_left"],
                         "initial": js["initial_tokens"], "cheat_bytes": js["cheats_left"]}, {"roots": res["roots"]}))
        if cheats > 1:
            out.append(({"kind": "cheat-token-left-in-pipe", "scenario": scn["name"], "left": js["cheats_left"]}, {"roots": res["roots"]}))
    return out


STATS = {"peak_seen": {}, "cheats": 0}


def collect(scn, res):
    if any(kind == "cheat" for _st, _lid, kind, _d in res["events"]):
        STATS["cheats"] += 1
    rs = STATS.setdefault("ready_sets", {}).setdefault(scn["name"], set())
    for s in res["steps"]:
        if s["kind"] == "select" and s["label"] == "io":
            m = re.search(r"ready=(\S*)", s["detail"])
            if m:
                rs.add(",".join("tok" if x == "tok" else "job" for x in m.group(1).split(",")))


def main(tier):
    return e2prop.run_property(
        PID, tier, scenarios(tier), oracle, collect=collect,
        extra=lambda: {"executions_with_a_cheat_token": STATS["cheats"],
                       "distinct_ready_sets_at_wakeups": {k: sorted(v) for k, v in STATS.get("ready_sets", {}).items()}},
        rule="own mode: redo -jN on a 3-fan, a 3-fan plus sibling, a failing fan and a build that takes an error exit; inherited mode: the "
             "harness creates the token pipe (N-1 tokens) and the cheat pipe and passes them through MAKEFLAGS / REDO_CHEATFDS to "
             "redo-ifchange; with and without log capture (real redo-log follower in the tree, which enables cheating). Every schedule "
             "with <= b deviations (quick 1, thorough 2) at the gates event-loop wake-up (exact ready set), token and cheat pipe read/"
             "write, fork hand-over, select! order, lock wait, scripts. Oracle: peak number of scripts inside work sections <= N (+1 only "
             "if a cheat token was granted); the toplevel self-check and the hook-reported counts agree with N; in inherited mode the "
             "pipe holds exactly N-1 tokens and the cheat pipe is empty when every process has exited -- on success, failure and error exit",
        assumptions=["work sections exclude the time a script waits for its own redo-ifchange",
                     "the make parent takes tokens only in the *-make-competes scenarios (<= 2 takes, each take and each voluntary "
                     "return is a deviation; a held token is returned when nothing else can run)"],
        budget_s=600 if tier == "quick" else 3000)


def replay(path):
    sc = {s["name"]: s for s, _ in scenarios("thorough")}
    return e2prop.replay(PID, sc, oracle, path)
