"""C02 -- the rebuild set is exactly the set of targets whose inputs changed (engine E1)."""
import json

from .. import common, e1prop, oracles, worlds
from ..e1 import executed, replay_history

PID = "C02"


def step_check(proj, i, obs):
    out = oracles.check_runset(proj, obs) + oracles.check_kill(proj, obs)
    op = obs["op"]
    if op[0] in ("ifchange", "redo"):
        pred = obs["pred"]
        out.append(e1prop.stat("build-commands-judged"))
        if not pred.get("ambiguous") and not pred.get("slack"):
            out.append(e1prop.stat("commands-where-must-equals-may"))
        if pred.get("slack"):
            out.append(e1prop.stat("commands-with-slack-decision"))
        if not executed(obs["trace"]) and not pred["ran"]:
            out.append(e1prop.stat("commands-that-ran-nothing (as required)"))
    return out


def alphabet(world, h):
    return e1prop.std_alphabet(world, h)


def alphabet_k(world, h):
    """the same plus interrupted builds (at most one kill per history)"""
    return e1prop.std_alphabet(world, h, kills=1)


def plan(tier):
    W = worlds.curated()
    if tier == "quick":
        names = ["dynamic", "dovar", "default", "csum-deep", "csum-two-b", "csum-toggle", "csum-fan", "fan3", "diamond", "ifcreate", "always", "diamond-csum", "autodir", "tolerant", "tolerant-csum", "linkdir", "shared-src"]
        K = ["dynamic", "chain"]
        from .c17 import alphabet_u, world_u
        # hand edits of generated files: the dependents react once to each edit, not for ever
        return [(W[n], alphabet, 3, 2) for n in names if n not in K] + [(W[n], alphabet_k, 3, 2) for n in K] + \
            [(world_u(), alphabet_u, 2, 2)]
    p = [(W[n], alphabet_k if n in ("chain", "csum-mid", "dynamic", "chain-append", "diamond", "csum-deep", "dovar", "default") else alphabet,
          5 if n in ("dynamic", "ifcreate", "csum-mid", "chain", "csum-two", "csum-two-b") else 4) for n in W if n not in worlds.OWN_ALPHABET]
    G = worlds.generated()
    p += [(G[k], alphabet, 3) for k in sorted(G)]
    from .c17 import alphabet_u, world_u
    p.append((world_u(), alphabet_u, 4, 3))
    return p


def main(tier):
    return e1prop.run_property(
        PID, tier, plan(tier), "rv.props.c02",
        rule="same history space as C01; oracle: for every redo / redo-ifchange command the multiset of executed .do "
             "scripts (from the append-only execution trace written by the generated scripts) equals the reference "
             "build simulation (per-target versions of dependencies seen at last successful build), each script at most "
             "once; the reference's few under-specified decisions (DESIGN.md C02 slack S1,S2) follow the observation "
             "and are counted separately",
        assumptions=["-j1, REDO_LOG=0", "flat single-directory worlds",
                     "slack: dependents of a removed checksummed target whose rebuild gives the same checksum may or may not re-run; "
                     "the sibling immediately after a failing one may already have been started"],
        budget_s=900 if tier == "quick" else 6000)


def replay(path):
    doc = json.load(open(path))
    W = dict(worlds.curated())
    W.update(worlds.generated())
    from .c17 import world_u
    W["chain-u"] = world_u()
    bindir = common.build_subject()
    key, viols, summ = replay_history(W[doc["world"]], doc["history"], step_check, bindir=bindir)
    common.cleanup_scratch()
    bad = [(i, s, d) for i, s, d in viols if s.get("kind") != "__stat__"]
    for s in summ:
        print(s)
    for v in bad:
        print("VIOLATION-REPLAYED", v)
    kf = common.Verdict(PID)
    new = [v for v in bad if not any(kf.matches(f, v[1]) for f in kf.kf)]
    return 1 if new else 0
