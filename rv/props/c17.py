"""C17 -- redo-ood / redo-targets / redo-sources are safe over-approximations and change nothing (E1)."""
import json

from .. import canon, common, e1prop, oracles, worlds
from ..e1 import replay_history
from ..refmodel import RefBuild

PID = "C17"
QUERIES = [["ood"], ["targets"], ["sources"]]


def ref_bounds(model):
    """(lower, upper, targets_known): lower = targets a following redo-ifchange would certainly re-run,
    upper = targets that would re-run if every checksummed target that needs a run changed."""
    lower, upper = set(), set()
    names = [x for x in model.built if model.built.get(x)]
    for assume, acc in ((False, lower), (True, upper)):
        rb = RefBuild(model)
        rb.done = {}
        rb.observed = set()
        rb.slack = []
        rb.assume_csum_changes = assume
        for x in names:
            if not model.exists(x):
                # a removed target would be rebuilt, but redo forgets that it was a target as soon as
                # some command notices the removal: it may be listed (upper) but need not be (lower)
                if assume and not model.is_sourcelike(x):
                    acc.add(x)
                continue
            if model.owner.get(x) != "redo":
                continue   # not (any longer) redo's own product
            nr = rb.needs_run(x, {})
            if assume:
                if nr != rb.NO:
                    acc.add(x)
            elif nr == rb.YES:
                acc.add(x)
    return lower, upper


def step_check(proj, i, obs):
    op = obs["op"]
    m = proj.model
    out = []
    if op[0] == "ood":
        if obs["rc"] != 0:
            return [({"kind": "query-failed", "cmd": "redo-ood", "rc": obs["rc"]}, {"err": obs["err"][-400:]})]
        lower, upper = ref_bounds(m)
        got = set(obs["listing"])
        out.append(e1prop.stat("ood-listings-judged"))
        if lower:
            out.append(e1prop.stat("ood-listings-with-nonempty-lower-bound"))
        if upper - lower:
            out.append(e1prop.stat("ood-listings-where-bounds-differ"))
        if not upper:
            out.append(e1prop.stat("ood-listings-required-empty"))
        miss = sorted(lower - got)
        extra = sorted(got - upper)
        if miss:
            out.append(({"kind": "ood-misses-target-that-will-rebuild", "world": proj.w.name, "targets": miss},
                        {"listing": sorted(got), "lower": sorted(lower), "upper": sorted(upper)}))
        if extra:
            out.append(({"kind": "ood-lists-target-that-cannot-rebuild", "world": proj.w.name, "targets": extra},
                        {"listing": sorted(got), "lower": sorted(lower), "upper": sorted(upper)}))
    elif op[0] in ("targets", "sources"):
        if obs["rc"] != 0:
            return [({"kind": "query-failed", "cmd": "redo-" + op[0], "rc": obs["rc"]}, {"err": obs["err"][-400:]})]
        got = set(obs["listing"])
        files, _ = canon.read_db(proj.p)
        known = {r[1] for r in (files or []) if not r[1].startswith("//")}
        out.append(e1prop.stat(op[0] + "-listings-judged"))
        for n in sorted(known | got):
            exists = (proj.p / n).exists()
            own = m.owner.get(n)
            if op[0] == "sources":
                if n in got and not exists:
                    out.append(({"kind": "sources-lists-missing-file", "world": proj.w.name, "name": n}, {"listing": sorted(got)}))
                if exists and own in ("user", "redo-overridden") and n in known and n not in got:
                    out.append(({"kind": "sources-misses-user-file", "world": proj.w.name, "name": n}, {"listing": sorted(got)}))
                if exists and own == "redo" and n in got:
                    out.append(({"kind": "sources-lists-generated-file", "world": proj.w.name, "name": n}, {"listing": sorted(got)}))
            else:
                if exists and own == "redo" and n in known and n not in got:
                    out.append(({"kind": "targets-misses-generated-file", "world": proj.w.name, "name": n}, {"listing": sorted(got)}))
                if exists and own in ("user", "redo-overridden") and n in got:
                    out.append(({"kind": "targets-lists-user-file", "world": proj.w.name, "name": n}, {"listing": sorted(got)}))
        # disjointness is judged when both listings of the same state are available (sources comes last)
        if op[0] == "sources":
            prev = getattr(proj, "_last_targets", None)
            if prev is not None and prev & got:
                out.append(({"kind": "targets-and-sources-overlap", "world": proj.w.name, "names": sorted(prev & got)}, {}))
        else:
            proj._last_targets = got
    return out


def alphabet(world, h):
    return e1prop.std_alphabet(world, h)


def alphabet_u(world, h):
    """the same plus hand edits of generated files (the queries must follow the change of ownership)"""
    return e1prop.std_alphabet(world, h) + [["uwrite", t, "by hand\n"] for t in world.targets]


def world_u():
    import copy
    w = copy.deepcopy(worlds.curated()["chain"])
    w.name = "chain-u"
    # seed states: a generated file edited by hand, before and after a build has noticed it
    w.prefixes = [[["ifchange", ["top"]], ["uwrite", "mid", "by hand\n"]],
                  [["ifchange", ["top"]], ["uwrite", "mid", "by hand\n"], ["ifchange", ["top"]]],
                  [["ifchange", ["top"]], ["uwrite", "mid", "by hand\n"], ["ifchange", ["top"]], ["uwrite", "mid", "by hand\n"]]]
    return w


def plan(tier):
    W = worlds.curated()
    if tier == "quick":
        names = ["chain", "csum-deep", "always", "fail", "dynamic", "ifcreate"]
        return [(W[n], alphabet, 3, 1) for n in names] + [(world_u(), alphabet_u, 2, 2)]
    return [(W[n], alphabet, 4) for n in W if n not in worlds.OWN_ALPHABET] + [(world_u(), alphabet_u, 4, 3)]


# ---------------------------------------------------------------------------
# the queries from every working directory of a project with sub-directories (the E1 worlds are flat)

CWD_DIRS = ["", "lib", "lib64", "lib/sub", "li", "src", "empty"]      # lib / lib64 / li: names that are string prefixes of each other
CWD_RULES = {"top.do": 'redo-ifchange lib/a lib64/b lib/sub/c li/d\necho top\n',
             "lib/a.do": 'redo-ifchange ../src/s1\ncat ../src/s1\n',
             "lib64/b.do": 'redo-ifchange s2 ../lib/a\ncat s2\n',
             "lib/sub/c.do": 'redo-ifchange s3 ../../lib64/b\ncat s3\n',
             "li/d.do": 'redo-ifchange ../src/s1\necho d\n'}
CWD_SOURCES = {"src/s1": "1\n", "lib64/s2": "2\n", "lib/sub/s3": "3\n"}
CWD_TARGETS = ["top", "lib/a", "lib64/b", "lib/sub/c", "li/d"]
CWD_STATES = [("built", [], []),
              ("source-edited", [("src/s1", "1'\n")], CWD_TARGETS),          # everything depends on src/s1
              ("deep-source-edited", [("lib/sub/s3", "3'\n")], ["top", "lib/sub/c"])]


def cwd_queries(verdict, cov):
    """redo-targets / redo-sources / redo-ood issued from EVERY directory of a small tree, in every state of a short
    list: each printed path, resolved against the working directory, must name the same file as the listing from the
    project root, which in turn must be the known truth; nothing may be printed twice."""
    import os
    import shutil
    import tempfile
    bindir = common.build_subject()
    root = tempfile.mkdtemp(prefix="c17cwd-", dir=common.scratch_root())
    runs = 0
    try:
        for sname, edits, want_ood in CWD_STATES:
            P = os.path.join(root, sname, "p")
            home = os.path.join(root, sname, "home")
            os.makedirs(home)
            for d in CWD_DIRS:
                os.makedirs(os.path.join(P, d), exist_ok=True)
            for n, txt in list(CWD_RULES.items()) + list(CWD_SOURCES.items()):
                with open(os.path.join(P, n), "w") as fh:
                    fh.write(txt)
            env = common.base_env(bindir, home)
            env["REDO_LOG"] = "0"
            rc, out, err = common.run_cmd(["redo", "top"], P, env)
            if rc != 0:
                raise common.MachineryError("cwd_queries: initial build failed: " + err[-300:])
            for n, txt in edits:
                with open(os.path.join(P, n), "w") as fh:
                    fh.write(txt)
                st = os.stat(os.path.join(P, n))
                os.utime(os.path.join(P, n), ns=(st.st_atime_ns, st.st_mtime_ns + 2_000_000_000))
            truth = {"targets": set(CWD_TARGETS), "sources": set(CWD_RULES) | set(CWD_SOURCES), "ood": set(want_ood)}
            for q in ("targets", "sources", "ood"):
                for d in CWD_DIRS:
                    cwd = os.path.join(P, d)
                    rc, out, err = common.run_cmd(["redo-" + q], cwd, env)
                    runs += 1
                    lines = [l for l in out.split("\n") if l]
                    resolved = [os.path.relpath(os.path.normpath(os.path.join(cwd, l)), P) for l in lines]
                    sig = None
                    if rc != 0:
                        sig = {"kind": "query-failed", "cmd": "redo-" + q, "cwd": d, "state": sname}
                    elif len(set(resolved)) != len(resolved):
                        sig = {"kind": "query-lists-a-file-twice", "cmd": "redo-" + q, "cwd": d, "state": sname}
                    elif set(resolved) != truth[q]:
                        sig = {"kind": "query-from-subdirectory-names-wrong-files", "cmd": "redo-" + q, "cwd": d, "state": sname}
                    if sig:
                        verdict.report(sig, {"engine": "E1-cwd", "lines": lines, "resolved": sorted(resolved),
                                             "want": sorted(truth[q]), "rc": rc, "err": err[-300:]})
    finally:
        shutil.rmtree(root, ignore_errors=True)
    cov["cwd_queries"] = {"states": [s[0] for s in CWD_STATES], "working_directories": CWD_DIRS, "queries_run": runs}


EXTRA = {}


def post(stats, verdict):
    try:
        cwd_queries(verdict, EXTRA)
    finally:
        common.cleanup_scratch()


def main(tier):
    return e1prop.run_property(
        PID, tier, plan(tier), "rv.props.c17", post=post, extra_coverage=EXTRA,
        explore_opts={"probes": QUERIES, "shadow": QUERIES},
        rule="every state reached by the C01/C02 history space (depth <= d) is probed with redo-ood, redo-targets and "
             "redo-sources: lower <= ood <= upper (reference: targets that will certainly re-run / would re-run if every "
             "stale checksummed target changed), targets and sources disjoint and agreeing with the ownership ledger for "
             "every known file that exists; and every history is additionally replayed with all three queries inserted "
             "after every step: exit codes, executed scripts, file contents at every step and the final canonical database "
             "key must be identical to the run without queries; plus: the three queries issued from every directory of a "
             "tree with sub-directories (lib, lib64, lib/sub, li, src, an empty one) in three states: every printed path "
             "resolved against the working directory names the same files as the listing from the root = the known truth",
        assumptions=["-j1, REDO_LOG=0", "flat worlds", "'known files' = names with a Files row in the implementation's database"],
        budget_s=900 if tier == "quick" else 6000)


def replay(path):
    doc = json.load(open(path))
    W = dict(worlds.curated())
    W["chain-u"] = world_u()
    bindir = common.build_subject()
    from ..e1 import _job, _init_worker
    _init_worker(str(bindir))
    history, key, viols, summ, dt = _job((W[doc["world"]], doc["history"], "step_check", "rv.props.c17",
                                          {"probes": QUERIES, "shadow": QUERIES, "all_steps": True}))
    common.cleanup_scratch()
    bad = [(i, s, d) for i, s, d in viols if s.get("kind") != "__stat__"]
    for s in summ:
        print({k: v for k, v in s.items() if k != "files"})
    for v in bad:
        print("VIOLATION-REPLAYED", v[0], v[1])
    return 1 if bad else 0
