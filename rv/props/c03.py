"""C03 -- checksum cut-off: redo-stamp stops and forwards change exactly (engine E1)."""
import json

from .. import common, e1prop, oracles, worlds
from ..e1 import executed, replay_history

PID = "C03"


def step_check(proj, i, obs):
    op = obs["op"]
    if op[0] not in ("ifchange", "redo"):
        return []
    out = []
    # (a) cut-off: nothing runs that the reference does not require; (b) forwarding: everything the
    # reference requires runs in this same command, and contents are right when it exits 0.
    out += oracles.check_runset(proj, obs)
    out += oracles.check_content(proj, obs)
    m0, m1 = obs["model_before"], proj.model
    ran = executed(obs["trace"])
    for idx, c in enumerate(ran):
        r = m1.rule_for(c)
        if not r or r[1].kind != "csum":
            continue
        if c not in m0.digest:
            out.append(e1prop.stat("csum-node-first-build"))
            continue
        changed = m0.digest.get(c) != m1.digest.get(c)
        # in-band: some target that (now) depends on c started before c in this command
        dependents = [x for x, seen in m1.seen.items() if c in seen]
        inband = any(x in ran[:idx] for x in dependents)
        out.append(e1prop.stat("csum-rerun:%s:%s" % ("changed" if changed else "unchanged",
                                                    "in-band" if inband else "out-of-band")))
        if not changed and not any(x in ran for x in dependents):
            out.append(e1prop.stat("cut-offs-observed (csum unchanged, no dependent ran)"))
        if changed and obs["rc"] == 0 and dependents and all(x in ran for x in dependents if x in oracles.closure_now(m1, op[1])):
            out.append(e1prop.stat("forwardings-observed (csum changed, dependents in closure ran in same command)"))
    return out


def alphabet(world, h):
    # edits range over values that do (0->2) and do not (0->1) alter the stamped projection
    return e1prop.std_alphabet(world, h, redo_targets=[t for t in world.targets if world.rules.get(t + ".do", [None])[0]
                                                       and world.rules[t + ".do"][0].kind == "csum"][:1],
                               touch=False)


def plan(tier):
    W = worlds.curated()
    names = ["csum-mid", "csum-deep", "csum-two", "csum-two-b", "csum-fan", "csum-toggle", "csum-kids", "csum-fail", "csum-burst", "csum-fail-late"]
    if tier == "quick":
        return [(W[n], alphabet, 3, 2) for n in names]
    G = worlds.generated()
    p = [(W[n], alphabet, 5) for n in names]
    p += [(G[k], alphabet, 4) for k in sorted(G) if "c:" in k]   # generated graphs containing a csum node
    return p


def post(stats, verdict):
    need = ["csum-rerun:changed:in-band", "csum-rerun:changed:out-of-band",
            "csum-rerun:unchanged:in-band", "csum-rerun:unchanged:out-of-band"]
    missing = [q for q in need if not stats.get(q)]
    if missing:
        raise common.MachineryError("vacuous exploration: quadrants never exercised: %s" % missing)


def main(tier):
    return e1prop.run_property(
        PID, tier, plan(tier), "rv.props.c03", post=post,
        rule="BFS over histories <= d of {redo-ifchange t, redo <csum node>, edit source to each other value (0<->1 keeps "
             "the stamped projection, ->2 changes it), rm target, .do switch} on worlds with a checksummed node at depth "
             "1..3 below the requested target, two in series, one with two dependents (plain and always); oracle: executed "
             "set == reference (cut-off and forwarding) and from-scratch content after exit 0; the four quadrants "
             "(checksum changed x decided in-band/out-of-band) must each be exercised",
        assumptions=["-j1, REDO_LOG=0", "flat worlds"],
        budget_s=900 if tier == "quick" else 6000)


def replay(path):
    doc = json.load(open(path))
    W = dict(worlds.curated())
    W.update(worlds.generated())
    bindir = common.build_subject()
    key, viols, summ = replay_history(W[doc["world"]], doc["history"], step_check, bindir=bindir)
    common.cleanup_scratch()
    bad = [(i, s, d) for i, s, d in viols if s.get("kind") != "__stat__"]
    for s in summ:
        print(s)
    for v in bad:
        print("VIOLATION-REPLAYED", v)
    kf = common.Verdict(PID)
    new = [v for v in bad if not any(kf.matches(f, v[1]) for f in kf.kf)]
    return 1 if new else 0
