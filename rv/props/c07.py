"""C07 -- each target built at most once per run; outcome independent of schedule (engine E2)."""
import itertools
import json

from .. import common, e2prop
from ..e2 import scenarios as SC
from ..refmodel import FAIL, Model
from ..worlds import S, World

PID = "C07"
VIS = SC.TOKENS + ["lock-try", "txn-begin"]
BASE = {}


def extra_worlds():
    w = {}
    w["csum-shared"] = World(
        "csum-shared", {"s": ["0", "1", "2"]},
        {"top.do": [S(deps=["a", "b"])], "a.do": [S(deps=["c"])], "b.do": [S(deps=["c"], out="file")],
         "c.do": [S(kind="csum", deps=["s"], proj=True, out="file")]},
        ["top", "a", "b", "c"], ["top"])
    w["always-shared"] = World(
        "always-shared", {"s": ["0", "1"]},
        {"top.do": [S(deps=["d1", "d2"])], "d1.do": [S(deps=["al"])], "d2.do": [S(deps=["al"], out="file")],
         "al.do": [S(kind="always", deps=["s"])]},
        ["top", "d1", "d2", "al"], ["top"])
    w["oobshare"] = World(   # two dirty dependents request, in parallel, a target that is only maybe-dirty through a checksummed node
        "oobshare", {"s": ["0", "2"], "qs": ["0", "1"]},
        {"all.do": [S(deps=["q1", "q2"])], "q1.do": [S(deps=["p", "qs"])], "q2.do": [S(deps=["p", "qs"], out="file")],
         "p.do": [S(deps=["t"])], "t.do": [S(kind="csum", deps=["s"], out="file")]},
        ["all", "q1", "q2", "p", "t"], ["all"])
    w["csum-stops"] = World(   # a shared target that recorded a checksum and whose script has stopped calling redo-stamp
        "csum-stops", {"s": ["0", "2"]},
        {"all.do": [S(deps=["a", "b"])], "a.do": [S(deps=["c"])], "b.do": [S(deps=["c"], out="file")],
         "c.do": [S(kind="csum", deps=["s"], out="file"), S(deps=["s"], out="file", tag="nostamp")]},
        ["all", "a", "b", "c"], ["all"])
    w["csum-window"] = World(   # job w evaluates b (which depends on c) while job a's chain is rebuilding the checksummed c
        "csum-window", {"s": ["0", "1", "2"]},
        {"all.do": [S(deps=["a", "w"])], "a.do": [S(kind="always", deps=["c"])], "w.do": [S(kind="always", deps=["b"], out="file")],
         "b.do": [S(deps=["c"])], "c.do": [S(kind="csum", deps=["s"], proj=True, out="file")]},
        ["all", "a", "w", "b", "c"], ["all"])
    w["forced-shared"] = World(   # one dependent asks for x with redo-ifchange, the other FORCES it (`redo x`) in the same run
        "forced-shared", {"s": ["0", "1"]},
        {"all.do": [S(deps=["a", "b"])], "a.do": [S(deps=["x"])], "b.do": [S(seq=[("redo", ["x"])], out="file")],
         "x.do": [S(deps=["s"])]},
        ["all", "a", "b", "x"], ["all"])
    w["tolerant-shared"] = World(   # two jobs whose scripts go on without a shared dependency that fails
        "tolerant-shared", {"s": ["0", "1"], "flag": ["1", "0"]},
        {"all.do": [S(deps=["t1", "t2"])], "t1.do": [S(deps=["c"], tolerant=True)], "t2.do": [S(deps=["c"], tolerant=True, out="file")],
         "c.do": [S(kind="csum", deps=["s"], fail="flag", proj=True, out="file")]},
        ["all", "t1", "t2", "c"], ["all"])
    w["tolerant-target-shared"] = World(   # the script that goes on without its failing dependency is itself asked for by two jobs
        "tolerant-target-shared", {"s": ["0", "1"], "flag": ["1", "0"]},
        {"all.do": [S(deps=["t1", "t2"])], "t1.do": [S(deps=["a"])], "t2.do": [S(deps=["a"], out="file")],
         "a.do": [S(deps=["c"], tolerant=True)], "c.do": [S(deps=["s"], fail="flag", out="file")]},
        ["all", "t1", "t2", "a", "c"], ["all"])
    w["link-spellings"] = World(   # two jobs ask for one file, one of them through a symbolic link to its directory
        "link-spellings", {"s": ["0", "1"], "d/k": ["0"]},
        {"all.do": [S(deps=["a", "b"])], "a.do": [S(deps=["d/y"])], "b.do": [S(deps=["ld/y"], out="file")], "d/y.do": [S(deps=["../s"])]},
        ["all", "a", "b", "d/y"], ["all"], symlinks={"ld": "d"})
    w["chain3"] = World(
        "chain3", {"s": ["0", "1"]},
        {"t1.do": [S(deps=["m"])], "t2.do": [S(deps=["m"], out="file")], "m.do": [S(deps=["l"])], "l.do": [S(deps=["s"])]},
        ["t1", "t2", "m", "l"], ["t1", "t2"])
    return w


def scenarios(tier):
    w = SC.W()
    w.update(extra_worlds())
    q = tier == "quick"
    L = []
    L.append((SC.scn("diamond-j2", w["diamond"], ["redo --no-log -j2 top"], visible=VIS), 1 if q else 2))
    if not q:
        L.append((SC.scn("fan3-j3", w["fan3"], ["redo --no-log -j3 top"], visible=VIS), 2))
    L.append((SC.scn("csum-shared-rebuild-j2", w["csum-shared"], ["redo --no-log -j2 top"],
                     setup=[["ifchange", ["top"]], ["edit", "s", "2"]], visible=VIS), 1 if q else 2))
    # the shared checksummed node is rebuilt with an UNCHANGED checksum (edit 0 -> 1 is projected away): the other job may
    # evaluate its dependent between the node's redo-stamp and the recording of the node
    L.append((SC.scn("csum-shared-unchanged-j2", w["csum-shared"], ["redo-ifchange top"], jobserver=2,
                     setup=[["ifchange", ["top"]], ["edit", "s", "1"]], visible=VIS), 1 if q else 2))
    L.append((SC.scn("csum-window-unchanged-j2", w["csum-window"], ["redo-ifchange all"], jobserver=2,
                     setup=[["ifchange", ["all"]], ["edit", "s", "1"]], visible=VIS), 1 if q else 2))
    L.append((SC.scn("oob-shared-rebuild-j2", w["oobshare"], ["redo --no-log -j2 all"],
                     setup=[["ifchange", ["all"]], ["edit", "s", "2"], ["edit", "qs", "1"]], visible=VIS), 1 if q else 2))
    L.append((SC.scn("always-shared-j2", w["always-shared"], ["redo --no-log -j2 top"], visible=VIS), 1 if q else 2))
    L.append((SC.scn("csum-stops-stamping-shared-j2", w["csum-stops"], ["redo --no-log -j2 all"],
                     setup=[["ifchange", ["all"]], ["dovar", "c.do", 1], ["edit", "s", "2"]], visible=VIS), 1 if q else 2))
    # a forced `redo x` of a node another job is building: it waits for the lock and builds x again (serially x runs
    # twice as well); never more often than serially, and x stays a target with its dependency
    L.append((SC.scn("forced-redo-of-shared-j2", w["forced-shared"], ["redo --no-log -j2 all"], visible=VIS), 1 if q else 2))
    L.append((SC.scn("forced-redo-of-shared-rebuild-j2", w["forced-shared"], ["redo --no-log -j2 all"],
                     setup=[["ifchange", ["all"]], ["edit", "s", "1"]], visible=VIS), 1 if q else 2))
    # two jobs go on without a shared dependency whose build fails; the repaired dependency must reach both afterwards
    # (the follow-up rebuild after editing every source -- flag included -- is compared with the serial run's)
    L.append((SC.scn("tolerated-failure-of-shared-j2", w["tolerant-shared"], ["redo --no-log -j2 all"], visible=VIS), 1 if q else 2))
    L.append((SC.scn("tolerating-target-asked-for-twice-j2", w["tolerant-target-shared"], ["redo --no-log -j2 all"], visible=VIS), 1 if q else 2))
    L.append((SC.scn("tolerating-target-asked-for-twice-j1", w["tolerant-target-shared"], ["redo --no-log all"], visible=VIS), 0 if q else 1))
    L.append((SC.scn("two-spellings-through-dir-symlink-j2", w["link-spellings"], ["redo --no-log -j2 all"], visible=VIS), 1 if q else 2))
    # every order of the command line (what --shuffle can produce) for two targets sharing a chain
    for perm in list(itertools.permutations(["t1", "t2"]))[:1 if q else 2]:      # quick: one order
        L.append((SC.scn("chain3-j2-" + "".join(perm), w["chain3"], ["redo --no-log -j2 " + " ".join(perm)], visible=VIS), 1 if q else 2))
    if not q:
        L.append((SC.scn("diamond-j3", w["diamond"], ["redo --no-log -j3 top"], visible=VIS), 2))
        L.append((SC.scn("diamond-rebuild-j2", w["diamond"], ["redo --no-log -j2 top"],
                         setup=[["ifchange", ["top"]], ["edit", "s", "1"]], visible=VIS), 2))
        for perm in itertools.permutations(["a", "b", "c"]):
            L.append((SC.scn("fan3-args-j2-" + "".join(perm), w["fan3"], ["redo --no-log -j2 " + " ".join(perm)], visible=VIS), 1))
    for scn_, _b in L:
        scn_["post_ops"] = followup(scn_)
    return L


def followup(scn):
    """after the scheduled run: edit every source to another value and rebuild the same roots, unscheduled"""
    ops = []
    for sname, alpha in sorted(scn["world"].sources.items()):
        ops.append(["edit", sname, alpha[-1]])
    ops.append(["touch", sorted(scn["world"].sources)[0]])
    roots = [a for a in scn["roots"][0]["argv"][1:] if not a.startswith("-")]
    ops.append(["ifchange", roots])
    return ops


def serial_variant(scn):
    s = dict(scn)
    s["name"] = scn["name"] + "/serial"
    s["roots"] = []
    for r in scn["roots"]:
        argv = [a for a in r["argv"] if not (a.startswith("-j") and a[2:].isdigit())]
        s["roots"].append({"name": r["name"], "argv": argv})
    s["visible"] = ["start", "exit", "select", "lock-wait", "script"]
    return s


def prepare(ex, scn):
    res = ex.run_one(serial_variant(scn))
    if res["verdict"] != "done":
        raise common.MachineryError("serial baseline of %s did not finish: %s %s" % (scn["name"], res["verdict"], res.get("error")))
    BASE[scn["name"]] = {"roots": res["roots"], "files": res["files"], "dbkey": res["dbkey"], "trace": res["trace"],
                         "post_ops": res.get("post_ops")}


def strip_checked(dbkey):
    """Rows without the `checked_runid` class.  Argument (DESIGN.md 9.7): checked_runid is a per-run memo "verified
    clean during run R"; which nodes get memoised depends on which requester reaches a node first.  It is only ever
    set on a node that *is* clean as of run R, so using it later as a lower bound for "changed since" is sound whatever
    its value; the follow-up differential below (edit + rebuild after every schedule) backs this empirically."""
    if not dbkey or len(dbkey) != 2:
        return dbkey
    rows = tuple(sorted((r[0], r[1], r[2], r[4], r[5], r[6], r[7]) for r in dbkey[0]))
    return (rows, tuple(map(tuple, dbkey[1])))


def implied(edges, x, z, skip):
    """is z reachable from x through recorded edges other than `skip`?"""
    seen, todo = set(), [x]
    while todo:
        n = todo.pop()
        for (a, b, m, d) in edges:
            if a == n and (a, b) != skip and b not in seen:
                if b == z:
                    return True
                seen.add(b)
                todo.append(b)
    return False


def oracle(scn, res):
    out = []
    if res["verdict"] != "done":
        return out
    base = BASE[scn["name"]]
    ran = [l.split(" ")[1] for l in res["trace"] if l.startswith("B ")]
    sran = [l.split(" ")[1] for l in base["trace"] if l.startswith("B ")]
    # more than once only where the scripts themselves force it (`redo x` inside a script), and then never more often
    # than the serial run
    # (judged absolutely, not against the serial run of the same binary -- which may be wrong in the same way)
    forced = {n for vs in scn["world"].rules.values() for sp in vs for cmd, names in sp.seq if cmd != "ifchange" for n in names}
    dup = sorted({x for x in ran if ran.count(x) > (max(1, sran.count(x)) if x in forced else 1)})
    sdup = sorted({x for x in sran if sran.count(x) > 1 and x not in forced})
    if sdup:
        out.append(({"kind": "built-more-than-once-in-the-serial-run", "scenario": scn["name"], "targets": sdup}, {"ran": sran}))
    if dup:
        out.append(({"kind": "built-more-than-once-in-one-run", "scenario": scn["name"], "targets": dup}, {"ran": ran}))
    if res["roots"] != base["roots"]:
        out.append(({"kind": "exit-status-differs-from-serial", "scenario": scn["name"]}, {"serial": base["roots"], "got": res["roots"]}))
    diff = sorted(n for n in set(base["files"]) | set(res["files"]) if base["files"].get(n) != res["files"].get(n))
    if diff:
        out.append(({"kind": "contents-differ-from-serial", "scenario": scn["name"], "files": diff},
                    {n: (base["files"].get(n), res["files"].get(n)) for n in diff}))
    a, b = strip_checked(base["dbkey"]), strip_checked(res["dbkey"])
    if a != b:
        rows = sorted(set(a[0]) ^ set(b[0]), key=str)
        deps = sorted(set(a[1]) ^ set(b[1]), key=str)
        csums = {r[0] for r in b[0] if r[-1]}
        both = set(a[1]) | set(b[1])
        if not rows and deps and all(e[1] in csums and implied(both, e[0], e[1], (e[0], e[1])) for e in deps):
            # the out-of-band path records the checksummed dependency it rebuilt under the *requesting script's*
            # target; the edge is implied transitively, and who carries it depends on who triggered the path first
            out.append(({"kind": "oob-edge-recorded-under-requesting-script"}, {"scenario": scn["name"], "deps": deps[:6]}))
        else:
            out.append(({"kind": "recorded-state-differs-from-serial", "scenario": scn["name"],
                         "fields": sorted({str(r[0]) for r in rows})}, {"rows": rows[:8], "deps": deps[:8]}))
    if base.get("post_ops") and res.get("post_ops"):
        pa, pb = base["post_ops"], res["post_ops"]
        diff = sorted(n for n in set(pa["files"]) | set(pb["files"]) if pa["files"].get(n) != pb["files"].get(n))
        if diff or [x["rc"] for x in pa["steps"]] != [x["rc"] for x in pb["steps"]]:
            out.append(({"kind": "later-rebuild-differs-from-serial", "scenario": scn["name"], "files": diff},
                        {"serial": pa["steps"], "got": pb["steps"]}))
    if sorted(set(ran)) != sorted(set(l.split(" ")[1] for l in base["trace"] if l.startswith("B "))):
        out.append(({"kind": "set-of-built-targets-differs-from-serial", "scenario": scn["name"]},
                    {"serial": base["trace"], "got": res["trace"]}))
    return out


# ---------------------------------------------------------------------------
# --shuffle: every order the shuffle can produce (the hook REDO_VERIF_SHUFFLE=k selects the k-th permutation of each list)

def shuffle_world():
    return World("dup-lists", {"s": ["0", "1"]},
                 {"top.do": [S(deps=["lib", "lib", "gen", "lib"])], "lib.do": [S(deps=["s"])], "gen.do": [S(deps=["s"], out="file")]},
                 ["top", "lib", "gen"], ["top"])


SHUFFLE_CMDS = [(["redo", "--no-log", "--shuffle", "top"], {}),
                (["redo-ifchange", "gen", "lib", "lib", "top"], {"REDO_SHUFFLE": "1"}),
                (["redo-ifchange", "lib", "gen", "lib"], {"REDO_SHUFFLE": "1"})]


def _shuffle_job(job):
    bindir, root, ci, k, jn, pre = job
    import os
    import shutil
    import time
    from ..e1 import Project
    w = shuffle_world()
    argv, env = SHUFFLE_CMDS[ci]
    d = os.path.join(root, "s%d_%d" % (os.getpid(), time.monotonic_ns()))
    os.makedirs(d)
    try:
        proj = Project(w, bindir, d)
        if pre == "rebuild":
            o = proj.op(["ifchange", ["top"]])
            if o["rc"] != 0:
                return {"job": job[2:], "bad": [("shuffle-prestate-failed", o["err"][-300:])]}
            proj.op(["edit", "s", "1"])
            proj.read_trace()
        a = list(argv)
        if jn > 1:
            if a[0] == "redo":
                a.insert(1, "-j%d" % jn)
            else:
                a = ["redo", "--no-log", "-j%d" % jn] + a[1:]     # redo-ifchange takes no -j: the same list, forced
        e = dict(env)
        if k is not None:
            e["REDO_VERIF_SHUFFLE"] = str(k)
        else:
            e.pop("REDO_SHUFFLE", None)
            a = [x for x in a if x != "--shuffle"]
        rc, out, err = proj.redo(a, {"env": e})
        trace = [l.split(" ")[1] for l in proj.read_trace() if l.startswith("B ")]
        files = {n: c for n, (c, _i) in proj.snapshot().items() if n in w.targets}
        m = Model(w)
        if pre == "rebuild":
            m.user_write("s", "1")
        want = {t: m.evaluate(t) for t in w.targets if t in a or "top" in a}
        bad = []
        if rc != 0:
            bad.append(("shuffled-build-failed", err[-300:]))
        for t, v in want.items():
            if files.get(t) != v:
                bad.append(("shuffled-build-wrong-content", "%s: want %r got %r" % (t, v, files.get(t))))
        from collections import Counter
        cnt = Counter(trace)
        forced = a[0] == "redo"
        for t in want:
            n_ok = (1, 2) if forced and t != "top" and "top" in a and t in a else (1,)   # a forced command-line target that top also built
            if cnt.get(t, 0) not in n_ok:
                bad.append(("shuffled-build-ran-%s-%d-times" % (t, cnt.get(t, 0)), " ".join(trace)))
        return {"job": job[2:], "bad": bad, "order": " ".join(trace)}
    finally:
        shutil.rmtree(d, ignore_errors=True)


def shuffle_part(tier, verdict):
    import concurrent.futures
    bindir = str(common.build_subject())
    root = str(common.scratch_root() / "c07sh")
    import os
    os.makedirs(root, exist_ok=True)
    jobs = []
    for ci in range(len(SHUFFLE_CMDS)):
        for pre in ("fresh", "rebuild"):
            for jn in ((1, 2) if tier == "quick" else (1, 2, 3)):
                for k in [None] + list(range(24)):
                    jobs.append((bindir, root, ci, k, jn, pre))
    orders = set()
    nbad = 0
    with concurrent.futures.ProcessPoolExecutor(max_workers=min(16, common.NCPU)) as ex:
        for r in ex.map(_shuffle_job, jobs, chunksize=4):
            ci, k, jn, pre = r["job"]
            if jn == 1 and r.get("order"):
                orders.add((ci, pre, r["order"]))
            for kind, detail in r["bad"]:
                nbad += 1
                verdict.report({"kind": kind, "command": " ".join(SHUFFLE_CMDS[ci][0]), "j": jn, "prestate": pre},
                               {"engine": "E1-shuffle", "permutation": k, "detail": detail, "job": [ci, k, jn, pre]})
    if len({o for c, p, o in orders if c == 1 and p == "fresh"}) < 4:
        raise common.MachineryError("vacuous: the shuffle hook did not produce different orders")
    return {"commands": [" ".join(c) for c, _e in SHUFFLE_CMDS], "permutations_per_command": 24, "runs": len(jobs),
            "distinct_serial_execution_orders": len(orders), "violating": nbad}


def main(tier):
    v = common.Verdict(PID)
    shcov = shuffle_part(tier, v)
    rc_sh = v.finish()
    rc = e2prop.run_property(
        PID, tier, scenarios(tier), oracle, prepare=prepare, extra={"shuffle": shcov, "shuffle_violations": v.count},
        rule="one top-level invocation at -j2/-j3 on graphs with shared nodes (diamond, 3-fan over a shared leaf, two targets over a "
             "shared chain in every command-line order = every --shuffle outcome, shared checksummed node on a rebuild, shared "
             "redo-always node); every schedule with <= b deviations (quick 1, thorough 2). Oracle: no script starts twice in the run; "
             "exit status, every file's content, the set of built targets and the canonical database state (names, flags, csum, stamp "
             "class, which run-id columns are set, dependency edges) equal those of the serial (-j1) run of the same scenario",
        assumptions=["no other invocation active", "the serial run is the default schedule of the same scenario without -j",
                     "--shuffle: every permutation of every list of <= 4 names (hook REDO_VERIF_SHUFFLE), lists with repeated names, "
                     "-j1 and (free-running) -j2: exit 0, contents == from-scratch evaluation, every script once"],
        budget_s=600 if tier == "quick" else 3000)
    return 1 if (rc or rc_sh) else 0


def replay(path):
    doc = json.load(open(path))
    if doc.get("engine") == "E1-shuffle":
        import os
        bindir = str(common.build_subject())
        root = str(common.scratch_root() / "c07sh")
        os.makedirs(root, exist_ok=True)
        r = _shuffle_job((bindir, root) + tuple(doc["job"]))
        common.cleanup_scratch()
        print(json.dumps(r, indent=1))
        if r["bad"]:
            print("VIOLATION-REPLAYED", r["bad"])
            return 1
        return 0
    sc = {s["name"]: s for s, _ in scenarios("thorough")}
    bindir = common.build_subject()
    from ..e2 import explore
    ex = explore.E2Explorer(bindir, workers=2)
    try:
        prepare(ex, sc[doc["scenario"]])
    finally:
        ex.close()
    return e2prop.replay(PID, sc, oracle, path)
