"""C07 -- each target built at most once per run; outcome independent of schedule (engine E2)."""
import itertools
import json

from .. import common, e2prop
from ..e2 import scenarios as SC
from ..refmodel import FAIL, Model
from ..worlds import S, World

PID = "C07"
VIS = SC.TOKENS + ["lock-try", "txn-begin"]
BASE = {}


def extra_worlds():
    w = {}
    w["csum-shared"] = World(
        "csum-shared", {"s": ["0", "1", "2"]},
        {"top.do": [S(deps=["a", "b"])], "a.do": [S(deps=["c"])], "b.do": [S(deps=["c"], out="file")],
         "c.do": [S(kind="csum", deps=["s"], proj=True, out="file")]},
        ["top", "a", "b", "c"], ["top"])
    w["always-shared"] = World(
        "always-shared", {"s": ["0", "1"]},
        {"top.do": [S(deps=["d1", "d2"])], "d1.do": [S(deps=["al"])], "d2.do": [S(deps=["al"], out="file")],
         "al.do": [S(kind="always", deps=["s"])]},
        ["top", "d1", "d2", "al"], ["top"])
    w["chain3"] = World(
        "chain3", {"s": ["0", "1"]},
        {"t1.do": [S(deps=["m"])], "t2.do": [S(deps=["m"], out="file")], "m.do": [S(deps=["l"])], "l.do": [S(deps=["s"])]},
        ["t1", "t2", "m", "l"], ["t1", "t2"])
    return w


def scenarios(tier):
    w = SC.W()
    w.update(extra_worlds())
    q = tier == "quick"
    L = []
    L.append((SC.scn("diamond-j2", w["diamond"], ["redo --no-log -j2 top"], visible=VIS), 1 if q else 2))
    L.append((SC.scn("fan3-j3", w["fan3"], ["redo --no-log -j3 top"], visible=VIS), 1 if q else 2))
    L.append((SC.scn("csum-shared-rebuild-j2", w["csum-shared"], ["redo-ifchange top"],
                     setup=[["ifchange", ["top"]], ["edit", "s", "2"]], visible=VIS, env_j=2), 1 if q else 2))
    L.append((SC.scn("always-shared-j2", w["always-shared"], ["redo --no-log -j2 top"], visible=VIS), 1 if q else 2))
    # every order of the command line (what --shuffle can produce) for two targets sharing a chain
    for perm in itertools.permutations(["t1", "t2"]):
        L.append((SC.scn("chain3-j2-" + "".join(perm), w["chain3"], ["redo --no-log -j2 " + " ".join(perm)], visible=VIS), 1 if q else 2))
    if not q:
        L.append((SC.scn("diamond-j3", w["diamond"], ["redo --no-log -j3 top"], visible=VIS), 2))
        L.append((SC.scn("diamond-rebuild-j2", w["diamond"], ["redo-ifchange top"],
                         setup=[["ifchange", ["top"]], ["edit", "s", "1"]], visible=VIS, env_j=2), 2))
        for perm in itertools.permutations(["a", "b", "c"]):
            L.append((SC.scn("fan3-args-j2-" + "".join(perm), w["fan3"], ["redo --no-log -j2 " + " ".join(perm)], visible=VIS), 1))
    # scenarios that run redo-ifchange at top level get parallelism through an inherited jobserver is C08's business;
    # here `env_j` marks them as serial-at-top (redo-ifchange has no -j) but parallel below via `redo -jN` is not needed.
    return L


def serial_variant(scn):
    s = dict(scn)
    s["name"] = scn["name"] + "/serial"
    s["roots"] = []
    for r in scn["roots"]:
        argv = [a for a in r["argv"] if not (a.startswith("-j") and a[2:].isdigit())]
        s["roots"].append({"name": r["name"], "argv": argv})
    s["visible"] = ["start", "exit", "select", "lock-wait", "script"]
    return s


def prepare(ex, scn):
    res = ex.run_one(serial_variant(scn))
    if res["verdict"] != "done":
        raise common.MachineryError("serial baseline of %s did not finish: %s %s" % (scn["name"], res["verdict"], res.get("error")))
    BASE[scn["name"]] = {"roots": res["roots"], "files": res["files"], "dbkey": res["dbkey"], "trace": res["trace"]}


def oracle(scn, res):
    out = []
    if res["verdict"] != "done":
        return out
    base = BASE[scn["name"]]
    ran = [l.split(" ")[1] for l in res["trace"] if l.startswith("B ")]
    dup = sorted({x for x in ran if ran.count(x) > 1})
    if dup:
        out.append(({"kind": "built-more-than-once-in-one-run", "scenario": scn["name"], "targets": dup}, {"ran": ran}))
    if res["roots"] != base["roots"]:
        out.append(({"kind": "exit-status-differs-from-serial", "scenario": scn["name"]}, {"serial": base["roots"], "got": res["roots"]}))
    diff = sorted(n for n in set(base["files"]) | set(res["files"]) if base["files"].get(n) != res["files"].get(n))
    if diff:
        out.append(({"kind": "contents-differ-from-serial", "scenario": scn["name"], "files": diff},
                    {n: (base["files"].get(n), res["files"].get(n)) for n in diff}))
    if res["dbkey"] != base["dbkey"]:
        a, b = base["dbkey"], res["dbkey"]
        d = {"rows": sorted(set(map(tuple, a[0])) ^ set(map(tuple, b[0])), key=str)[:8],
             "deps": sorted(set(map(tuple, a[1])) ^ set(map(tuple, b[1])), key=str)[:8]} if a and b and len(a) == 2 and len(b) == 2 else {}
        out.append(({"kind": "recorded-state-differs-from-serial", "scenario": scn["name"],
                     "fields": sorted({str(r[0]) for r in d.get("rows", [])})}, d))
    if sorted(set(ran)) != sorted(set(l.split(" ")[1] for l in base["trace"] if l.startswith("B "))):
        out.append(({"kind": "set-of-built-targets-differs-from-serial", "scenario": scn["name"]},
                    {"serial": base["trace"], "got": res["trace"]}))
    return out


def main(tier):
    return e2prop.run_property(
        PID, tier, scenarios(tier), oracle, prepare=prepare,
        rule="one top-level invocation at -j2/-j3 on graphs with shared nodes (diamond, 3-fan over a shared leaf, two targets over a "
             "shared chain in every command-line order = every --shuffle outcome, shared checksummed node on a rebuild, shared "
             "redo-always node); every schedule with <= b deviations (quick 1, thorough 2). Oracle: no script starts twice in the run; "
             "exit status, every file's content, the set of built targets and the canonical database state (names, flags, csum, stamp "
             "class, which run-id columns are set, dependency edges) equal those of the serial (-j1) run of the same scenario",
        assumptions=["no other invocation active", "the serial run is the default schedule of the same scenario without -j"],
        budget_s=55 if tier == "quick" else 2400)


def replay(path):
    doc = json.load(open(path))
    sc = {s["name"]: s for s, _ in scenarios("thorough")}
    bindir = common.build_subject()
    from ..e2 import explore
    ex = explore.E2Explorer(bindir, workers=2)
    try:
        prepare(ex, sc[doc["scenario"]])
    finally:
        ex.close()
    return e2prop.replay(PID, sc, oracle, path)
