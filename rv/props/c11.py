"""C11 -- redo never overwrites or deletes files it did not produce (engine E1)."""
import json

from .. import canon, common, e1prop, oracles
from ..e1 import executed, replay_history
from ..worlds import S, World

PID = "C11"
NAMES = ["a.x", "t"]
NAMES_OF = {"owner": ["a.x", "t"], "owner-csum": ["c", "top"]}


def world():
    return World(
        "owner", {"src": ["0", "1"], "hand": ["H"], "hd/k": ["K"]},
        {"default.x.do": [S(deps=["src"])], "t.do": [S(deps=["src"], out="file")], "all.do": [S(deps=["a.x", "t", "b.x"])]},
        ["all", "a.x", "t"], ["all", "a.x", "t"],
        # b.x is the user's: a symbolic link to a hand-maintained file, under a name the default rule matches
        symlinks={"b.x": "hand"},
        # non-initial seed states: a generated file the user edited and redo has already noticed (override flagged)
        prefixes=[[["ifchange", ["all"]], ["uwrite", "a.x", "U1\n"], ["ifchange", ["a.x"]]],
                  [["ifchange", ["all"]], ["ureplace", "t", "R\n"], ["redo", ["t"]]],
                  # a rebuild of t that was killed when its script had finished (output written, nothing recorded):
                  # what the user does to t after that is still theirs
                  [["ifchange", ["all"]], ["edit", "src", "1"], ["kbuild", ["t"], "t", "e"]]])


def world_csum():
    """the same game on a checksummed target with a dependent: the user's version of `c` is what `top` gets built from,
    and when the user removes it again the rebuilt `c` must reach `top` (even if it equals the output before the edit)"""
    return World(
        "owner-csum", {"src": ["0", "2"], "flag": ["0", "1"]},
        {"top.do": [S(deps=["c"])], "c.do": [S(kind="csum", deps=["src"], fail="flag", out="file")]},
        ["top", "c"], ["top", "c"],
        prefixes=[[["ifchange", ["top"]], ["uwrite", "c", "U1\n"], ["ifchange", ["top"]]],
                  [["ifchange", ["top"]], ["ureplace", "c", "R\n"], ["ifchange", ["top"]], ["rm", "c"]],
                  # a rebuild of c killed after its redo-stamp had run
                  [["ifchange", ["top"]], ["edit", "src", "2"], ["kbuild", ["top"], "c", "e"]],
                  # the very first build of c killed after its redo-stamp had run: there is no c yet; what the user puts
                  # there afterwards is the user's
                  [["kbuild", ["top"], "c", "e"]],
                  # c was removed and its rebuild FAILED (so redo forgot that it was a target); the user then put a file of
                  # their own there, top was built from it, and the user has removed it again
                  [["ifchange", ["top"]], ["rm", "c"], ["edit", "flag", "1"], ["ifchange", ["top"]], ["uwrite", "c", "U1\n"],
                   ["ifchange", ["top"]], ["rm", "c"]]])


def world_dir():
    """a rule whose product is a DIRECTORY (mkdir "$3"), and a directory of the user's, with the user's files in it, under a
    name that rule matches: whatever redo makes of that name, the user's files stay"""
    return World(
        "owner-dir", {"src": ["0", "1"]},
        {"default.pkg.do": [S(deps=["src"], out="dir")], "default.out.do": [S(deps=["src"])]},
        ["g.pkg"], ["g.pkg"],
        # (u.out: a directory of the user's under a name whose rule produces a regular FILE)
        prefixes=[[["uwrite", "u.pkg/keep", "K\n"], ["uwrite", "u.pkg/sub/more", "M\n"], ["uwrite", "u.out/keep", "K\n"]]])


def world_slash():
    """names with a trailing separator: `redo u.x/` names the user's file u.x (or nothing at all) -- never a licence to
    run the rule over it"""
    return World(
        "owner-slash", {"src": ["0", "1"], "u.x": ["U"]},
        {"default.x.do": [S(deps=["src"])]},
        ["g.x"], ["g.x"])


def alphabet_slash(w, h):
    ops = []
    for n in ("u.x", "g.x"):
        for sp in (n, n + "/", n + "/."):
            ops += [["ifchange", [sp]], ["redo", [sp]]]
    cur = e1prop.cur_values(w, h)
    ops.append(["edit", "src", "1" if cur["src"] == "0" else "0"])
    return ops


def alphabet_dir(w, h):
    ops = [["ifchange", ["u.pkg"]], ["redo", ["u.pkg"]], ["ifchange", ["g.pkg"]], ["redo", ["g.pkg"]], ["ifchange", ["g.pkg", "u.pkg"]]]
    cur = e1prop.cur_values(w, h)
    ops.append(["edit", "src", "1" if cur["src"] == "0" else "0"])
    if not any(op[0] == "udirfile" and op[1] == "u.pkg" for op in h):
        ops += [["uwrite", "u.pkg/keep", "K\n"], ["uwrite", "u.pkg/keep", "K2 longer\n"], ["rm", "u.pkg/keep"]]
        # the user moves the directory away and puts a regular file of theirs under the name (redo may have the name on
        # record as a directory by then)
        ops.append(["udirfile", "u.pkg", "mine\n"])
    ops += [["ifchange", ["u.out"]], ["redo", ["u.out"]]]
    if not any(op[0] == "udirfile" and op[1] == "u.out" for op in h):
        ops.append(["udirfile", "u.out", "mine too\n"])
    return ops


def step_check_dir(proj, i, obs):
    """only the central oracle: the model knows nothing of directories as targets"""
    op = obs["op"]
    if op[0] not in ("ifchange", "redo"):
        return []
    out = []
    mb = obs["model_before"]
    before, after = obs["before"], obs["after"]
    for n, own in mb.owner.items():
        if own in ("user", "redo-overridden") and n in before:
            if n not in after:
                out.append(({"kind": "user-file-deleted", "name": n, "owner": own, "cmd": op[0]}, {"before": before[n]}))
            elif after[n] != before[n]:
                out.append(({"kind": "user-file-modified", "name": n, "owner": own, "cmd": op[0],
                             "what": "content" if after[n][0] != before[n][0] else "inode"},
                            {"before": before[n], "after": after[n]}))
            out.append(e1prop.stat("user-owned-files-checked-across-a-redo-command"))
    if obs["rc"] == 101 or "panicked" in obs["err"]:
        out.append(({"kind": "abort", "world": proj.w.name, "cmd": op[0]}, {"err": obs["err"][-400:]}))
    return out


def alphabet_csum(w, h):
    ops = [["ifchange", ["top"]], ["ifchange", ["c"]], ["redo", ["c"]]]
    cur = e1prop.cur_values(w, h)
    ops.append(["edit", "src", "2" if cur["src"] == "0" else "0"])
    ops.append(["edit", "flag", "1" if cur["flag"] == "0" else "0"])
    for n in ("c", "top"):
        ops += [["uwrite", n, "U1\n"], ["ureplace", n, "R\n"], ["rm", n]]
    return ops


def step_check(proj, i, obs):
    op = obs["op"]
    if op[0] not in ("ifchange", "redo"):
        return []
    out = []
    mb, m = obs["model_before"], proj.model
    before, after = obs["before"], obs["after"]
    # the central oracle: user-owned bytes and inode are untouched by every redo command
    for n, own in mb.owner.items():
        if own in ("user", "redo-overridden") and n in before:
            if n not in after:
                out.append(({"kind": "user-file-deleted", "name": n, "owner": own, "cmd": op[0]}, {"before": before[n]}))
            elif after[n] != before[n]:
                out.append(({"kind": "user-file-modified", "name": n, "owner": own, "cmd": op[0],
                             "what": "content" if after[n][0] != before[n][0] else "inode"},
                            {"before": before[n], "after": after[n]}))
            out.append(e1prop.stat("user-owned-files-checked-across-a-redo-command"))
    # a skipped user-modified generated file produces the warning
    names = NAMES_OF[proj.w.name]
    reach = set(op[1])
    if "all" in op[1] and "all" in executed(obs["trace"]):
        reach |= set(names)
    if "top" in op[1] and "top" in executed(obs["trace"]) and proj.w.name == "owner-csum":
        reach.add("c")
    for n in names:
        if mb.owner.get(n) == "redo-overridden" and n in reach:
            out.append(e1prop.stat("requests-of-user-modified-generated-file"))
            if "you modified it" not in obs["err"]:
                out.append(({"kind": "no-warning-for-user-modified-target", "name": n, "cmd": op[0]}, {"err": obs["err"][-500:]}))
    # nothing else may run a script for a user-owned name; after user-rm the next build gives evaluate's bytes
    out += oracles.check_runset(proj, obs)
    out += oracles.check_content(proj, obs)
    out += oracles.check_exit(proj, obs)
    return out


def alphabet(w, h):
    ops = [["ifchange", ["a.x"]], ["ifchange", ["t"]], ["ifchange", ["all"]], ["redo", ["a.x"]], ["redo", ["t"]],
           ["ifchange", ["b.x"]], ["redo", ["b.x"]],
           # z.x: a name the default rule matches and nothing depends on; the user may make it a link to their directory hd
           ["ifchange", ["z.x"]], ["redo", ["z.x"]], ["ulinkdir", "z.x", "hd"], ["rm", "z.x"]]
    cur = e1prop.cur_values(w, h)
    ops.append(["edit", "src", "1" if cur["src"] == "0" else "0"])
    for n in NAMES:
        ops += [["uwrite", n, "U1\n"], ["uwrite", n, "U2 longer\n"], ["ureplace", n, "R\n"], ["rm", n]]
        ops.append(["uhard", n, "hand"])     # the user's file `hand` hard-linked into the target's place
        # an older file of exactly the size of the generated one (a.x(0) / t(0) plus newline)
        ops.append(["uold", n, "O" * (len(n) + 3) + "\n"])
    return ops


def main(tier):
    w = world()
    return e1prop.run_property(
        PID, tier, [(w, alphabet, 3 if tier == "quick" else 4, 2 if tier == "quick" else 3),
                    (world_csum(), alphabet_csum, 3 if tier == "quick" else 5, 2 if tier == "quick" else 3),
                    (world_dir(), alphabet_dir, 3 if tier == "quick" else 4, 3),
                    (world_slash(), alphabet_slash, 3 if tier == "quick" else 4)], "rv.props.c11",
        check_names={"owner-dir": "step_check_dir", "owner-slash": "step_check_dir"},
        rule="BFS over all histories <= d (quick 3, thorough 4; the checksummed world 5) of {redo-ifchange a.x|t|all, redo a.x|t, edit src, and for each of "
             "the names a.x (matched by default.x.do) and t (t.do): user-edit in place (two contents of different size), "
             "user-replace (new inode), user-restore (an OLDER file of exactly the generated size), user-rm}; an ownership ledger records the last writer of each path; oracle: every "
             "redo command leaves bytes and inode of every user-owned path unchanged, warns when it skips a user-modified "
             "generated file, runs exactly the scripts the reference allows, and gives from-scratch contents after exit 0 "
             "(in particular it rebuilds after the user removed the file). Second world: the same on a checksummed target c "
             "with a dependent top (names c and top)",
        assumptions=["-j1, REDO_LOG=0", "two names, one default rule, one specific rule"],
        budget_s=900 if tier == "quick" else 6000)


def replay(path):
    doc = json.load(open(path))
    bindir = common.build_subject()
    wd = {"owner-csum": world_csum(), "owner-dir": world_dir(), "owner-slash": world_slash()}.get(doc.get("world"), world())
    key, viols, summ = replay_history(wd, doc["history"], step_check_dir if wd.name in ("owner-dir", "owner-slash") else step_check, bindir=bindir)
    common.cleanup_scratch()
    bad = [(i, s, d) for i, s, d in viols if s.get("kind") != "__stat__"]
    for s in summ:
        print(s)
    for v in bad:
        print("VIOLATION-REPLAYED", v)
    return 1 if bad else 0
