"""C18, E4 part -- structured log records survive format -> parse unchanged.

`run(tier, verdict) -> coverage dict` is called from c18.py (which owns PID, evidence and the E2 part).

Record value = (kind, pid, timestamp, text).  Documented line format (logs.rs): "@@REDO:<kind>:<pid>:<ts>@@ <text>"
with the timestamp printed to 4 decimals.  Checks, each over a completely enumerated domain:
  M1  parse(format(m)) gives m back: kind, pid, text identical; |ts' - ts| <= half a unit of the 4th decimal;
      the line has the documented shape (prefix at column 0, 4 decimals, "@@ " before the text)
  M2  format(parse(format(m))) == format(m)                      (the printed form is a fixpoint)
  M3  kind "done", text "<rc> <name>": done_text() == (rc, name) for names with spaces, '@', ':', tabs, unicode,
      leading/trailing blanks; other kinds: done_text() is None
  M4  a line is taken for a record only when the prefix is at column 0: the same line shifted by one character,
      with the prefix in lower case, or without the terminator is rejected by the parser
"""
import itertools
import math
import re

from .. import common, e4

PID = "C18"

TOKENS = ["a", " ", "@", ":", "@@ ", "@@REDO:", "\t", "ü"]
PIDS = [0, 1, 99999, 2147483647]
# incl. values that round at the 4th decimal (up and down, carrying into the integer part) and realistic epoch values
TIMESTAMPS = [0.0, 0.00004, 0.00005, 0.00006, 0.99994, 0.99995, 0.99996, 0.12345, 0.12355, 1.5, 9.99995, 1e-7,
              1727586000.0, 1727586000.12345, 1727586000.12355, 1727586000.99995, 1727586000.99999,
              2147483647.99996, 4102444800.5]
KNOWN_KINDS = ["do", "done", "check", "unchanged", "locked", "waiting", "unlocked", "resumed", "error", "warning", "debug"]
RCS = [0, 1, 2, 127, 208, 209, -1, 2147483647]


def emitted_kinds():
    """The literal kinds at meta(...) call sites in the repository (plus the hard-coded list above)."""
    found = set()
    pat = re.compile(r'\bmeta\(\s*"([A-Za-z_]+)"')
    for f in sorted((common.REPO / "src").rglob("*.rs")):
        found.update(pat.findall(f.read_text(errors="replace")))
    kinds = list(KNOWN_KINDS)
    for k in sorted(found):
        if k not in kinds:
            kinds.append(k)
    return kinds, sorted(found)


def texts(maxlen):
    return list(dict.fromkeys(e4.strings_over(TOKENS, maxlen)))     # distinct, in enumeration order


LINE_RE = re.compile(r"^@@REDO:([^:@]*):(-?\d+):(\d+\.\d{4})@@ (.*)$", re.S)


def judge(kind, pid, ts, text, a):
    """Returns a list of (violation kind, detail)."""
    out = []
    if "panic" in a:
        return [("meta-panic", {"msg": a["panic"]})]
    line = a["line"]
    m = LINE_RE.match(line)
    if not m or m.group(1) != kind or int(m.group(2)) != pid or m.group(4) != text:
        out.append(("meta-line-shape", {"line": line}))
    p = a["parsed"]
    if p is None:
        out.append(("meta-parse-error", {"line": line, "error": a["perr"]}))
        return out
    if p["kind"] != kind or p["pid"] != pid or p["text"] != text:
        out.append(("meta-roundtrip-field", {"line": line, "parsed": p}))
    if p["ts"] is None or abs(p["ts"] - ts) > 0.00005 + 4 * math.ulp(max(1.0, abs(ts))):
        out.append(("meta-roundtrip-timestamp", {"line": line, "ts": ts, "parsed_ts": p["ts"]}))
    if kind != "done" and p["done"] is not None:
        out.append(("meta-done-on-other-kind", {"line": line, "done": p["done"]}))
    return out


def run(tier, verdict):
    kinds, found = emitted_kinds()
    maxlen = 4 if tier == "quick" else 5
    T_all = texts(maxlen)
    T_small = texts(2)
    # domain A: full product kinds x pids x timestamps x texts(<=2)
    dom = [(k, p, ts, tx) for k, p, ts, tx in itertools.product(kinds, PIDS, TIMESTAMPS, T_small)]
    nA = len(dom)
    # domain B: every kind x every text(<=maxlen), pid/timestamp fixed at a rounding value
    domB = [(k, 99999, 1727586000.12355, tx) for k, tx in itertools.product(kinds, T_all)]
    dom += domB
    # domain C: done texts "<rc> <name>"
    names = texts(3)
    domC = [("done", 1, 1.5, f"{rc} {nm}") for rc, nm in itertools.product(RCS, names)]
    expectC = [[rc, nm] for rc, nm in itertools.product(RCS, names)]
    ans = e4.run_harness("meta", dom)
    bad = []
    lines_seen = set()
    re_reqs = []
    for (k, p, ts, tx), a in zip(dom, ans):
        for vk, det in judge(k, p, ts, tx, a):
            bad.append((vk, (k, p, ts, tx), det))
        if a.get("parsed") and a["parsed"]["ts"] is not None:
            re_reqs.append(((a["parsed"]["kind"], a["parsed"]["pid"], float(a["parsed"]["ts"]), a["parsed"]["text"]), a["line"]))
        lines_seen.add(a.get("line"))
    # M2 fixpoint on the distinct printed forms
    uniq = list({l: r for r, l in re_reqs}.items())
    again = e4.run_harness("meta", [r for l, r in uniq])
    n_fix_bad = 0
    for (l, r), a in zip(uniq, again):
        if a.get("line") != l:
            n_fix_bad += 1
            bad.append(("meta-format-not-fixpoint", r, {"first": l, "second": a.get("line")}))
    # M3 done
    ansC = e4.run_harness("meta", domC)
    for (k, p, ts, tx), want, a in zip(domC, expectC, ansC):
        for vk, det in judge(k, p, ts, tx, a):
            bad.append((vk, (k, p, ts, tx), det))
        if a.get("parsed") and a["parsed"]["done"] != want:
            bad.append(("meta-done-split", (k, p, ts, tx), {"line": a["line"], "done": a["parsed"]["done"], "want": want}))
    # M4 prefix position
    base_lines = ["@@REDO:do:1:1.5000@@ a", "@@REDO:done:99999:1727586000.1235@@ 0 a b", "@@REDO:check:0:0.0000@@ "]
    neg = []
    for bl in base_lines:
        neg += [" " + bl, "a" + bl, "@" + bl, bl.lower(), bl[2:], bl.replace("@@ ", "@@", 1) if bl.count("@@ ") == 1 else bl + "",
                bl.replace("@@REDO:", "@@REDO", 1), bl.replace("@@ ", " @@ ", 1).replace("@@REDO:", "", 1)]
    neg = [l for l in dict.fromkeys(neg) if l not in base_lines]
    neg += [t for t in texts(3) if not t.startswith("@@REDO:")]
    ansN = e4.run_harness("metaparse", [(l,) for l in neg])
    for l, a in zip(neg, ansN):
        if a.get("parsed") is not None or "panic" in a:
            bad.append(("meta-prefix-misrecognised", ("", 0, 0.0, l), {"line": l, "answer": a}))
    ansP = e4.run_harness("metaparse", [(l,) for l in base_lines])
    for l, a in zip(base_lines, ansP):
        if a.get("parsed") is None:
            bad.append(("meta-valid-line-rejected", ("", 0, 0.0, l), {"line": l, "answer": a}))

    # report: at most 20 per kind, shortest texts first
    by_kind = {}
    for vk, rec, det in bad:
        by_kind.setdefault(vk, []).append((rec, det))
    for vk, items in sorted(by_kind.items()):
        items.sort(key=lambda it: (len(it[0][3]), it[0][3], it[0][0], it[0][1], it[0][2]))
        for rec, det in items[:20]:
            k, p, ts, tx = rec
            verdict.report({"kind": vk, "record_kind": k, "pid": p, "ts": ts, "text": tx},
                           {"engine": "E4", "check": "meta", "record": {"kind": k, "pid": p, "ts": ts, "text": tx},
                            "detail": det})
    total = len(dom) + len(uniq) + len(domC) + len(neg) + len(base_lines)
    want_samples = [("done", "@@ @@REDO:"), ("waiting", "a@@ :"), ("do", "ü\t a"), ("error", "@@REDO:@@ ")]
    sample_idx = []
    for wk, wt in want_samples:
        for i, d in enumerate(dom):
            if d[0] == wk and d[3] == wt and d[1] == 99999 and d[2] == 1727586000.12355:
                sample_idx.append(i)
                break
    cov = {
        "meta_records": total,
        "kinds": kinds, "kinds_found_at_call_sites": found, "pids": PIDS, "timestamps": TIMESTAMPS,
        "texts_max_tokens": maxlen, "texts": len(T_all), "full_product_records": nA, "kind_x_text_records": len(domB),
        "done_records": len(domC), "fixpoint_lines": len(uniq), "negative_lines": len(neg),
        "distinct_printed_lines": len(lines_seen), "violating_records": len(bad),
        "violation_kinds": {k: len(v) for k, v in by_kind.items()},
        "rule": ("Meta round trip: kinds x pids x timestamps x every text of <= 2 tokens (full product) + kinds x every "
                 f"text of <= {maxlen} tokens over {TOKENS!r} + done records rc x every name of <= 3 tokens + reformatting "
                 "of every distinct printed line + lines with the prefix off column 0; distinct = distinct printed lines"),
        "samples": [{"record": list(dom[i]), "line": ans[i]["line"], "parsed": ans[i]["parsed"]} for i in sample_idx],
        "evaluations": total, "distinct_nontrivial": len(lines_seen), "exhaustive": True,
    }
    return cov


def replay_doc(doc):
    """Re-run one record; returns 1 if it still fails."""
    r = doc["record"]
    sigk = doc.get("signature", {}).get("kind", "")
    if sigk in ("meta-prefix-misrecognised", "meta-valid-line-rejected"):
        a = e4.run_harness("metaparse", [(r["text"],)])[0]
        print(a)
        failing = (a.get("parsed") is not None) if sigk == "meta-prefix-misrecognised" else (a.get("parsed") is None)
        return 1 if failing else 0
    a = e4.run_harness("meta", [(r["kind"], r["pid"], float(r["ts"]), r["text"])])[0]
    print(a)
    v = judge(r["kind"], r["pid"], float(r["ts"]), r["text"], a)
    if sigk == "meta-done-split" and a.get("parsed"):
        rc, _, nm = r["text"].partition(" ")
        if a["parsed"]["done"] != [int(rc), nm]:
            v.append(("meta-done-split", {}))
    if sigk == "meta-format-not-fixpoint" and a.get("parsed"):
        p = a["parsed"]
        b = e4.run_harness("meta", [(p["kind"], p["pid"], float(p["ts"]), p["text"])])[0]
        if b.get("line") != a["line"]:
            v.append(("meta-format-not-fixpoint", {}))
    for x in v:
        print("VIOLATION-REPLAYED", x)
    return 1 if v else 0


if __name__ == "__main__":      # stand-alone smoke run: python3 -m rv.props.c18_e4 [quick|thorough]
    import json
    import sys
    import time
    t0 = time.time()
    vd = common.Verdict(PID)
    c = run(sys.argv[1] if len(sys.argv) > 1 else "quick", vd)
    rc = vd.finish(max_print=20)
    print(json.dumps({k: v for k, v in c.items() if k not in ("samples", "rule", "timestamps")}, ensure_ascii=False))
    print(json.dumps(c["samples"], ensure_ascii=False))
    print(f"wall={time.time()-t0:.1f}s rc={rc}")
