"""C06 -- at most one .do runs for a given target at any time; results recorded before hand-over (engine E2)."""
from .. import e2prop
from ..e2 import scenarios as SC
from ..worlds import S, World

PID = "C06"
VIS = SC.LOCKS + ["tok-read", "tok-write", "cheat-read", "select-order"]


def abort_world():
    # b's redo-ifchange names x (buildable) and then a, which closes a cycle: that process takes an error exit
    return World("abortjob", {"s": ["0", "1"]},
                 {"a.do": [S(deps=["b"])], "b.do": [S(deps=["x", "a"], out="file")], "x.do": [S(deps=["s"])]},
                 ["a", "b", "x"], ["a", "x"])


def scenarios(tier):
    w = SC.W()
    q = tier == "quick"
    L = []
    L.append((SC.scn("S1-two-ifchange-x", w["one"], ["redo-ifchange x", "redo-ifchange x"], visible=VIS), 1 if q else 3))
    L.append((SC.scn("S2-shared-dep", w["shared"], ["redo-ifchange t1", "redo-ifchange t2"], visible=VIS), 1 if q else 2))
    L.append((SC.scn("S3-redo+ifchange-x", w["one"], ["redo --no-log x", "redo-ifchange x"], visible=VIS), 1 if q else 3))
    L.append((SC.scn("S4-error-exit-with-running-job", abort_world(), ["redo --no-log -j2 a", "redo-ifchange x"], visible=VIS),
              1 if q else 2))
    # the out-of-band path: the target's lock must be held while redo-unlocked rebuilds it without a lock of its own
    L.append((SC.scn("S5-oob-rebuild-vs-second-invocation", w["csum-mid"], ["redo-ifchange top", "redo-ifchange top"],
                     setup=[["ifchange", ["top"]], ["edit", "s", "2"]], visible=VIS), 1 if q else 2))
    # the user kills a whole invocation (process tree) part-way while a second one wants the same target
    L.append((SC.scn("S6-tree-kill-vs-second-invocation", w["chain"], ["redo-ifchange top", "redo-ifchange top"],
                     visible=VIS, kill_roots=["T0"], expect_ok=["T1"]), 1 if q else 2))
    # two invocations reach one file through different names of its directory (a symbolic link): still one lock
    wl = World("one-link", {"s": ["0", "1"], "d/k": ["0"]}, {"d/y.do": [S(deps=["../s"])]}, ["d/y"], ["d/y"], symlinks={"ld": "d"})
    L.append((SC.scn("S7-two-names-of-one-directory", wl, ["redo-ifchange ld/y", "redo-ifchange d/y"], visible=VIS), 1 if q else 2))
    # the user edits a source while the run is in progress: gen (checksummed) is rebuilt out of band for T0's top; while its
    # script runs, a second invocation starts to wait for gen's lock and the source changes again, so gen is dirty once more
    # when redo-unlocked reaches its second step -- whoever rebuilds it then must hold its lock
    we = World("oob-edit", {"src": ["0", "1", "2"]},
               {"top.do": [S(deps=["gen"])],
                "gen.do": [S(kind="csum", deps=["src"], out="file", sync=(("mid", "wait", "b-started"), ("mid", "ask", "edit-src")))],
                "bb.do": [S(deps=["gen"], sync=(("start", "set", "b-started"),))]},
               ["top", "gen", "bb"], ["top"])
    L.append((SC.scn("S8-source-edited-during-oob-rebuild", we, ["redo-ifchange top", "redo-ifchange bb"],
                     setup=[["ifchange", ["top"]], ["edit", "src", "2"]], on_ask={"edit-src": [["edit", "src", "1"]]},
                     visible=VIS), 1 if q else 2))
    # two forced builds of one target: the second finds it locked, waits, and must then decide on the record as the first
    # left it -- not on what it read before waiting (x already built / never built)
    L.append((SC.scn("S9-two-forced-redo-x-rebuild", w["one"], ["redo --no-log x", "redo --no-log x"], setup=[["ifchange", ["x"]]],
                     visible=VIS, forced={"x": 2}), 1 if q else 2))
    L.append((SC.scn("S10-two-forced-redo-x-first-build", w["one"], ["redo --no-log x", "redo --no-log x"], visible=VIS,
                     forced={"x": 2}), 1 if q else 2))
    # somebody sends SIGTERM to the shell of ONE script (x) of a -j2 build; the redo that runs it records that failure and
    # must go on looking after its other job (y), whose lock it holds, while a second invocation wants y
    L.append((SC.scn("S11-one-script-gets-sigterm-j2", w["two"], ["redo --no-log -j2 x y", "redo-ifchange y"], visible=VIS,
                     term_scripts=["x"], may_fail=True), 1 if q else 2))
    if not q:
        L.append((SC.scn("S6b-tree-kill-shared-dep", w["shared"], ["redo-ifchange t1", "redo-ifchange t2"],
                         visible=VIS, kill_roots=["T0"], expect_ok=["T1"]), 2))
        L.append((SC.scn("S1b-three-ifchange-x", w["one"], ["redo-ifchange x", "redo-ifchange x", "redo-ifchange x"], visible=VIS), 2))
        L.append((SC.scn("S2b-rebuild-shared-dep", w["shared"], ["redo-ifchange t1", "redo-ifchange t2"],
                         setup=[["ifchange", ["t1", "t2"]], ["edit", "s", "1"]], visible=VIS), 2))
    return L


def oracle(scn, res):
    out = []
    ev = res["events"]
    # (1) executions of one target's script never overlap
    open_ = {}
    nexec = {}
    killed = set()
    for idx, (step, lid, kind, detail) in enumerate(ev):
        if kind == "kill":
            # every process of that invocation is gone: its executions have ended (without an `end` note)
            killed.add(detail)
            for tgt in list(open_):
                open_[tgt] = [l for l in open_[tgt] if not (l == detail or l.startswith(detail + ".") or l.startswith(detail + "/"))]
            continue
        if kind != "script":
            continue
        w = detail.split(" ", 1)
        if len(w) != 2:
            continue
        what, tgt = w
        if what == "begin":
            nexec[tgt] = nexec.get(tgt, 0) + 1
            if open_.get(tgt):
                out.append(({"kind": "overlapping-executions", "scenario": scn["name"], "target": tgt},
                            {"first": open_[tgt], "second": lid, "at_step": step}))
            open_.setdefault(tgt, []).append(lid)
        elif what == "end":
            if lid in open_.get(tgt, []):
                open_[tgt].remove(lid)
    # (2) the result of an execution is committed before anybody else acquires the target's lock
    fid_of = {r[0]: r[3] for r in (res.get("dbrows") or [])}
    for tgt, fid in fid_of.items():
        ends = [i for i, e in enumerate(ev) if e[2] == "script" and e[3] == "end " + tgt]
        for i in ends:
            ender = ev[i][1]
            j = next((k for k in range(i + 1, len(ev)) if ev[k][2] == "lock-acquired" and ev[k][3] == "fid=%d" % fid), None)
            window = ev[i + 1: j] if j is not None else ev[i + 1:]
            rec = next((k for k, e in enumerate(window) if e[2] == "record-begin" and e[3].startswith("fid=%d " % fid)), None)
            ok = False
            if rec is not None:
                rl = window[rec][1]
                ok = any(e[2] == "txn-end" and e[3] == "commit" and e[1] == rl for e in window[rec + 1:])
            by_killed = any(ender == k or ender.startswith(k + ".") for k in killed)
            if not ok and j is not None and not by_killed:
                out.append(({"kind": "lock-handed-over-before-result-recorded", "scenario": scn["name"], "target": tgt},
                            {"script_end_by": ender, "next_owner": ev[j][1], "recorded": rec is not None}))
            if not ok and j is None and res["verdict"] == "done" and not any(
                    ender == k or ender.startswith(k + ".") for k in killed):
                out.append(({"kind": "execution-never-recorded", "scenario": scn["name"], "target": tgt},
                            {"script_end_by": ender, "roots": res["roots"]}))
    # (3) "the result of an execution is recorded before any other process may decide whether to build that target": seen
    # from outside, a process that decided on a stale record takes the other's fresh output for a file of the user's
    # ("you modified it; skipping"), skips a forced build, or records the built target as a source
    if res["verdict"] == "done" and not scn.get("kill_roots"):
        for nm, err in res["stderr"].items():
            if "you modified it" in err or "not redoing" in err:
                out.append(({"kind": "other-invocations-output-taken-for-user-file", "scenario": scn["name"]}, {"stderr": err[-400:]}))
        for t, n_want in (scn.get("forced") or {}).items():
            n = sum(1 for l in res["trace"] if l.startswith("B %s " % t))
            if n != n_want and all(rc == 0 for rc in res["roots"].values()):
                out.append(({"kind": "forced-build-skipped", "scenario": scn["name"], "count": n}, {"trace": res["trace"]}))
        gen = {r[0]: r[1] for r in (res.get("dbrows") or [])}
        built = {l.split(" ")[1] for l in res["trace"] if l.startswith("E ")}
        for t in sorted(built):
            if t in gen and not gen[t] and all(rc == 0 for rc in res["roots"].values()):
                out.append(({"kind": "built-target-not-recorded-as-generated", "scenario": scn["name"], "target": t}, {"row": gen.get(t)}))
    # the surviving invocation must finish its job correctly
    if res["verdict"] == "done":
        for n in scn.get("expect_ok", []):
            if res["roots"].get(n) != 0:
                out.append(({"kind": "survivor-failed-after-kill", "scenario": scn["name"], "rc": res["roots"].get(n)},
                            {"stderr": res["stderr"].get(n, "")[-600:], "killed": sorted(killed)}))
        if scn.get("expect_ok") and all(res["roots"].get(n) == 0 for n in scn["expect_ok"]):
            from ..refmodel import Model
            m = Model(scn["world"])
            for r in scn["roots"]:
                if r["name"] in scn["expect_ok"]:
                    for t in r["argv"][1:]:
                        if res["files"].get(t) != m.evaluate(t):
                            out.append(({"kind": "survivor-built-wrong-content", "scenario": scn["name"], "target": t},
                                        {"got": res["files"].get(t), "want": m.evaluate(t), "killed": sorted(killed)}))
    return out


def main(tier):
    return e2prop.run_property(
        PID, tier, scenarios(tier), oracle,
        rule="2-3 concurrently started top-level invocations on shared targets (two redo-ifchange of one target; two targets "
             "sharing a dependency; redo against redo-ifchange; an invocation that takes an error exit while its job is still "
             "running against a second one), every schedule with <= b deviations (quick 1, thorough 2-3) at the gates lock "
             "try/wait/unlock, transaction begin, event loop, fork hand-over, token pipe, script begin/around redo-ifchange/end. "
             "Oracle from the scheduler's event order: begin/end of one target's script never nest or overlap; between a script's "
             "end and the next acquisition of that target's lock there is a record-begin and a COMMIT by the recording process; "
             "every finished execution is recorded",
        assumptions=["script begin/end are reported by the generated scripts (trap EXIT), lock/record/commit events by the hooks",
                     "SIGKILL of invocations is not part of these scenarios"],
        budget_s=600 if tier == "quick" else 3000)


def replay(path):
    sc = {s["name"]: s for s, _ in scenarios("thorough")}
    return e2prop.replay(PID, sc, oracle, path)
