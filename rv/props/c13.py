"""C13 -- .do rule selection order and script arguments.

E4 part:  redo::possible_do_files(target) == ref_dofiles(target) (rv/e4.py, written from the documented
          search order) for every target path of an enumerated family of directories x names x spellings.
Real-binary part (single step): for targets whose in-project candidate list has k <= K entries, ALL 2^k
          placements of candidate scripts in a fresh project; `redo-whichdo` and `redo` are run on the real
          binary and judged against the reference order / arguments.

`extra_checks` is the hook for the E1 histories part (add / remove candidates between builds).
"""
import concurrent.futures
import itertools
import json
import os
import shutil
import time

from .. import common, e4
from ..common import MachineryError

PID = "C13"

DIRS = ["", "d", "d.e", "d/e", "d/e/f"]
NAMES = ["a", "a.b", "a.b.c", ".a", ".a.b", "a..b", "a.", "a b.c", "ü.x",
         "default", "default.x", "default.x.y", "a.do"]     # names that collide with rule-file names (default.do as a
                                                              # target is its own rule: not a target, left out)
PREFIXES = ["", "/r"]          # directly below the root, and below one more directory


HSCRIPT = ("mkdir -p -- \"$(dirname -- \"$3\")\"\n"
           "printf '%s|%s|%s\\n' {id} \"$1\" \"$2\" > \"$3\"\n")


def run_history(job):
    """add(higher-priority candidate) / remove(chosen) histories on the real binary.

    One project: only candidate `low` exists (its script creates the target's directory itself when needed);
    build; create the higher-priority candidate `high` (possibly inside a directory that did not exist when the
    rule was first looked up); redo-ifchange must rebuild the target with `high`; remove `high`; redo-ifchange must
    rebuild it with `low` again; a further redo-ifchange runs nothing."""
    root, bindir, target_rel, low, high, premkdir, idx = job[:7]
    via_link = len(job) > 7 and job[7]      # the higher-priority candidate first appears as a DANGLING symbolic link
    base = job[8] if len(job) > 8 else ""   # the directory that holds .redo, below the tree's top: candidates above it are "above the project base"
    top = os.path.join(root, f"h{idx}")
    PR = os.path.join(top, "pr")
    home = os.path.join(top, "home")
    res = {"target": target_rel, "low": low, "high": high, "premkdir": premkdir, "via_link": bool(via_link), "base": base, "violations": [], "runs": 0}
    try:
        os.makedirs(PR)
        if base:
            os.makedirs(os.path.join(PR, base, ".redo"))
        os.makedirs(home)
        PRr = os.path.realpath(PR)
        cands = e4.ref_dofiles(PRr + "/" + target_rel)
        for i in (low, high):
            dd = cands[i]["do_dir"]
            if not (dd == PRr or dd.startswith(PRr + "/")):
                res["machinery"] = "candidate outside the project"
                return res
        tdir = os.path.dirname(target_rel)
        if premkdir and tdir:
            os.makedirs(os.path.join(PR, tdir), exist_ok=True)
        env = common.base_env(bindir, home)
        env["REDO_LOG"] = "0"
        tpath = os.path.join(PR, target_rel)

        def place(i):
            c = cands[i]
            os.makedirs(c["do_dir"], exist_ok=True)
            with open(os.path.join(c["do_dir"], c["do_file"]), "w") as fh:
                fh.write(HSCRIPT.format(id=i))

        def build(step, want):
            rc, out, err = common.run_cmd([os.path.join(bindir, "redo-ifchange"), os.path.relpath(target_rel, base or ".")],
                                          os.path.join(PR, base), env, timeout=30)
            res["runs"] += 1
            got = None
            if os.path.isfile(tpath):
                got = open(tpath, errors="replace").read().split("|")[0]
            if rc != 0 or got != str(want):
                res["violations"].append({"kind": "history-" + step, "rc": rc, "built_by": got, "want": want,
                                          "stderr": err[-300:]})
                return False
            return True
        os.makedirs(cands[low]["do_dir"], exist_ok=True)
        place(low)
        if not build("initial-build", low):
            return res
        hp = os.path.join(cands[high]["do_dir"], cands[high]["do_file"])
        if via_link:
            # a link that leads nowhere is no script: the target stays as it is (and is not rebuilt); once the link's
            # destination appears it is the script of highest priority; when the destination goes, the old one is back
            os.makedirs(cands[high]["do_dir"], exist_ok=True)
            os.symlink(cands[high]["do_file"] + ".real", hp)
            before = os.stat(tpath).st_ino
            if not build("dangling-link-under-a-rule-name-taken-for-a-script", low):
                return res
            if os.stat(tpath).st_ino != before:
                res["violations"].append({"kind": "history-rebuilt-because-of-a-dangling-link"})
            with open(hp + ".real", "w") as fh:
                fh.write(HSCRIPT.format(id=high))
            if not build("higher-priority-script-added-but-not-used", high):
                return res
            os.unlink(hp + ".real")
            if not build("chosen-script-removed-but-target-not-rebuilt", low):
                return res
            return res
        place(high)
        if not build("higher-priority-script-added-but-not-used", high):
            return res
        os.unlink(hp)
        if not build("chosen-script-removed-but-target-not-rebuilt", low):
            return res
        before = os.stat(tpath).st_ino
        build("idle-rebuild", low)
        if os.stat(tpath).st_ino != before:
            res["violations"].append({"kind": "history-rebuilt-without-change"})
        return res
    finally:
        shutil.rmtree(top, ignore_errors=True)


def run_outside(job):
    """A target OUTSIDE the directory that holds .redo, asked for by a script of the project as ../outside/y.gen.  Its rule
    is the first existing default.gen.do in the directories above the TARGET (outside/, ws/, top/); a rule lying in the
    project's own directory (which is no ancestor of the target) must never be taken."""
    root, bindir, have, foreign, idx = job
    top = os.path.join(root, f"o{idx}")
    T = os.path.join(top, "top")
    res = {"have": list(have), "foreign": foreign, "violations": []}
    try:
        os.makedirs(T + "/ws/proj/.redo")
        os.makedirs(T + "/ws/outside")
        os.makedirs(top + "/home")
        Tr = os.path.realpath(T)
        rule = 'printf \'%s|%s|%s|%s\\n\' {id} "$1" "$2" "$PWD" > "$3"\n'
        where = {"outside": "ws/outside", "ws": "ws", "top": ""}
        for h in have:
            with open(os.path.join(T, where[h], "default.gen.do"), "w") as fh:
                fh.write(rule.format(id=h))
        if foreign:
            with open(os.path.join(T, "ws/proj", foreign), "w") as fh:
                fh.write(rule.format(id="FOREIGN"))
        with open(T + "/ws/proj/x.do", "w") as fh:
            fh.write('redo-ifchange ../outside/y.gen || exit 9\ncat ../outside/y.gen\n')
        env = common.base_env(bindir, top + "/home")
        env["REDO_LOG"] = "0"
        rc, out, err = common.run_cmd([os.path.join(bindir, "redo-ifchange"), "x"], T + "/ws/proj", env, timeout=30)
        want = next(h for h in ("outside", "ws", "top") if h in have)
        wdir = os.path.join(Tr, where[want]) if where[want] else Tr
        rel = os.path.relpath(Tr + "/ws/outside/y.gen", wdir)
        expect = "%s|%s|%s|%s\n" % (want, rel, rel[:-4], wdir)
        try:
            got = open(T + "/ws/outside/y.gen").read()
        except OSError:
            got = None
        if rc != 0 or got != expect:
            res["violations"].append({"kind": "outside-target-built-by-wrong-rule" if got and got != expect else "outside-target-not-built",
                                      "rc": rc, "got": got, "want": expect, "stderr": err[-300:]})
        return res
    finally:
        shutil.rmtree(top, ignore_errors=True)


def extra_checks(tier, verdict, cov):
    """E1-style histories of C13: add(higher-priority candidate), remove(chosen), redo-ifchange -- for every pair
    low > high of in-project candidates of a few targets, with the target's directory existing beforehand or not."""
    bindir = str(common.build_subject())
    root = str(common.scratch_root() / "c13h")
    os.makedirs(root, exist_ok=True)
    # (d/-n.b: a file name that starts with a dash -- its own rule file is called -n.b.do)
    targets = ["d/a.b", "d/e/a.b.c", "d/-n.b"] if tier == "quick" else ["a.b", "d/a.b", "d/e/a.b.c", "d.e/.a.b", "d/-n.b"]
    jobs = []
    idx = 0
    for t in targets:
        inproj = [i for i, (c, rel) in enumerate(in_project_candidates(t)) if rel is not None]   # never above the project
        for low in inproj:
            for high in [h for h in inproj if h < low]:
                for premkdir in (True, False):
                    jobs.append((root, bindir, t, low, high, premkdir, idx))
                    idx += 1
                jobs.append((root, bindir, t, low, high, True, idx, True))
                idx += 1
                # the same with the state directory one level down (in the target's first directory), so that the
                # candidates in the top directory lie ABOVE the project base
                b = t.split("/")[0] if "/" in t else ""
                cl = in_project_candidates(t)
                above = [not (cl[i][1] == b or cl[i][1].startswith(b + "/")) for i in (low, high)]
                if b and any(above):
                    jobs.append((root, bindir, t, low, high, True, idx, False, b))
                    idx += 1
    bad = []
    runs = 0
    with concurrent.futures.ProcessPoolExecutor(max_workers=min(16, max(1, common.NCPU))) as ex:
        for r in ex.map(run_history, jobs, chunksize=4):
            if "machinery" in r:
                raise MachineryError("C13 histories: %s (%s)" % (r["machinery"], r["target"]))
            runs += r["runs"]
            for v in r["violations"]:
                bad.append((r, v))
    seen = set()
    for r, v in sorted(bad, key=lambda rv: (rv[0]["low"], rv[0]["high"], len(rv[0]["target"]))):
        sig = {"kind": v["kind"], "target": r["target"], "target_dir_existed": r["premkdir"]}
        if r.get("via_link"):
            sig["via_link"] = True
        if r.get("base"):
            sig["state_dir_in"] = r["base"]
        key = json.dumps(sig, sort_keys=True)
        if key in seen:
            continue
        seen.add(key)
        if len(seen) <= 10:
            verdict.report(sig, {"engine": "E1-history", "check": "history", "target": r["target"], "low": r["low"],
                                 "high": r["high"], "premkdir": r["premkdir"], "via_link": r.get("via_link", False), "base": r.get("base", ""), "violation": v})
    ojobs = []
    import itertools as _it
    k = 0
    for n in (1, 2, 3):
        for have in _it.combinations(("outside", "ws", "top"), n):
            for foreign in (None, "default.gen.do", "default.do"):
                ojobs.append((root, bindir, have, foreign, k))
                k += 1
    with concurrent.futures.ProcessPoolExecutor(max_workers=min(16, max(1, common.NCPU))) as ex:
        for r in ex.map(run_outside, ojobs, chunksize=2):
            for v in r["violations"]:
                sig = {"kind": v["kind"], "rules": "+".join(r["have"]), "foreign": r["foreign"]}
                verdict.report(sig, {"engine": "E1-history", "check": "outside", "have": r["have"], "foreign": r["foreign"], "violation": v})
                bad.append((r, v))
    # arguments that name no file at all: redo-whichdo (and redo) say so; nobody aborts
    # (in a jail: `redo-ifchange /..` makes the root directory its project and creates /.redo)
    jail = common.make_jail(os.path.join(root, "degenerate"), bindir)
    os.makedirs(str(jail / "p" / ".redo"), exist_ok=True)
    # ... nor names that no redo path can hold (a newline, a byte sequence that is not UTF-8)
    degenerate = ["/", "/..", "//", "/.", ".", "..", "./", "a/..", "a/../..", "a\nb.x", "n\udcff.x"]
    for arg in degenerate:
        for tool in ("redo-whichdo", "redo-ifchange", "redo"):
            rc, out, err = common.run_jailed(jail, ["/bin/" + tool, os.fsencode(arg)], "/p", timeout=30)
            if rc == 101 or "panicked" in err:
                sig = {"kind": "abort-on-an-argument-that-names-no-file", "tool": tool, "argument": arg}
                verdict.report(sig, {"engine": "E1-history", "check": "degenerate", "argument": arg, "tool": tool, "rc": rc, "stderr": err[-300:]})
                bad.append(({"target": arg, "low": None, "high": None, "premkdir": None}, sig))
    if cov is not None:
        cov["arguments_that_name_no_file"] = {"arguments": degenerate, "tools": ["redo-whichdo", "redo-ifchange", "redo"]}
        cov["targets_outside_the_project"] = {"cases": len(ojobs), "rule_places": ["outside", "ws", "top"],
                                              "foreign_rule_in_project_dir": [None, "default.gen.do", "default.do"]}
        cov["evaluations"] += len(ojobs)
        cov["histories"] = {"targets": targets, "histories": len(jobs), "commands_run": runs, "violating": len(bad)}
        cov["evaluations"] += len(jobs)
        cov["distinct_nontrivial"] += len(jobs)
    return bad


# ---------------------------------------------------------------------------
# E4 part

def spellings(path, tier):
    """path: clean absolute path.  Yields (label, spelling)."""
    yield "clean", path
    if tier != "thorough":
        return
    parts = path[1:].split("/")
    yield "doubled-separators", "//" + "//".join(parts)
    yield "trailing-slash", path + "/"
    yield "dot-elements", "/./" + "/./".join(parts)
    # a `zz/..` detour before each single component, and before all of them
    for i in range(len(parts)):
        p2 = parts[:i] + ["zz", "..", parts[i]] + parts[i + 1:]
        yield f"dotdot-before-{i}", "/" + "/".join(p2)
    yield "dotdot-everywhere", "/" + "/".join("zz/../" + p for p in parts)
    yield "dotdot-at-root", "/../.." + path
    # go down into the name's directory and come back
    if len(parts) > 1:
        yield "down-and-up", "/" + "/".join(parts[:-1]) + "/" + parts[-2] + "x/../" + parts[-1]
        yield "mixed", "//" + "/.//".join(parts[:-1]) + "/zz/.././/" + parts[-1]


def e4_targets(tier):
    out = []
    for pre, d, n in itertools.product(PREFIXES, DIRS, NAMES):
        clean = pre + ("/" + d if d else "") + "/" + n
        for label, sp in spellings(clean, tier):
            out.append((clean, label, sp))
    return out


def check_e4(tier, verdict, cov):
    targets = e4_targets(tier)
    ans = e4.run_harness("dofiles", [(sp,) for _, _, sp in targets])
    bad = []
    nontrivial = set()
    lens = {}
    for (clean, label, sp), a in zip(targets, ans):
        want = e4.ref_dofiles(sp)
        if "ok" in a:
            got = e4.harness_dofiles_as_ref(a["ok"])
        else:
            got = e4.ans_str(a)
        if "." in clean.rsplit("/", 1)[1] or label != "clean":
            nontrivial.add(sp)
        lens[sp] = len(want)
        if got != want:
            first = None
            if isinstance(got, list):
                for i, (g, w) in enumerate(itertools.zip_longest(got, want)):
                    if g != w:
                        first = {"index": i, "redo": g, "reference": w}
                        break
            bad.append((sp, label, got, want, first))
    for sp, label, got, want, first in e4.shortest(bad, 20, key=lambda t: t[0]):
        verdict.report({"kind": "dofiles-mismatch", "input": sp},
                       {"engine": "E4", "check": "dofiles", "input": sp, "spelling": label, "first_difference": first,
                        "redo": got, "reference": want})
    cov["dofiles"] = {"targets": len(targets), "distinct_nontrivial": len(nontrivial), "mismatch": len(bad),
                      "candidate_list_lengths": {"min": min(lens.values()), "max": max(lens.values())}}
    ex = [t for t in targets if t[0] == "/r/d/e/a b.c"][-1]
    cov["samples"].append({"fn": "possible_do_files", "input": ex[2],
                           "reference": [f"{c['do_dir'].rstrip('/')}/{c['do_file']}  $1={c['arg1']} $2={c['arg2']}"
                                         for c in e4.ref_dofiles(ex[2])]})
    cov["evaluations"] += len(targets)
    cov["distinct_nontrivial"] += len(nontrivial)


# ---------------------------------------------------------------------------
# real-binary part

# (directory, name) of targets relative to the project root; k = number of candidates inside the project
RB_TARGETS = [(d, n) for d in ["", "d", "d.e", "d/e", "d/e/f"] for n in NAMES]
RB_SPELLINGS = {       # thorough: the same target named differently on the command line
    "d/a.b": ["d//a.b", "./d/a.b", "d/../d/a.b", "zz/../d/./a.b"],
    "a.b.c": ["./a.b.c", ".//a.b.c", "d/../a.b.c"],
    "d/e/a": ["d/e/../e/a", "d//e//a"],
}
RB_CWDS = {            # thorough: (working directory, spelling) pairs -- the command is run below the project root
    "d/a.b": [("d", "a.b"), ("d", "../d/a.b"), ("d", "./a.b")],
    "d/e/a": [("d/e", "a"), ("d", "e/a"), ("d/e", "../e/a")],
    "a.b.c": [("d", "../a.b.c")],
}


# the target reached through a symbolic link to its directory: (physical target, cwd, spelling, links [(name, text)])
RB_LINKED = [("b/real/x.txt", "", "a/link/x.txt", (("a/link", "../b/real"),)),
             ("b/real/x.txt", "a", "link/x.txt", (("a/link", "../b/real"),))]
LINKS_OF = {(t, c, sp): links for t, c, sp, links in RB_LINKED}


def in_project_candidates(target_rel):
    """Reference candidates for <PR>/<target_rel> with a fake root: returns (all candidates with do_dir relative
    to the project root or None when above it)."""
    cands = e4.ref_dofiles("/PR/" + target_rel)
    out = []
    for c in cands:
        dd = c["do_dir"]
        if dd == "/PR" or dd.startswith("/PR/"):
            out.append((c, dd[len("/PR"):].lstrip("/")))
        else:
            out.append((c, None))
    return out


def rb_plan(tier):
    kmax = 5 if tier == "quick" else 8
    plan = []
    for d, n in RB_TARGETS:
        rel = (d + "/" if d else "") + n
        k = sum(1 for c, inside in in_project_candidates(rel) if inside is not None)
        if k > kmax:
            continue
        if tier == "quick" and n in (".a.b", "a.", "a..b", "a.do", "default.x.y") and d:
            continue          # quick: keep the odd names at the top level only
        sp = [("", rel)]
        if tier == "thorough":
            sp += [("", s) for s in RB_SPELLINGS.get(rel, [])]
            sp += RB_CWDS.get(rel, [])
        for cwd_rel, s in sp:
            plan.append((rel, cwd_rel, s, k))
    for rel, cwd_rel, s, _links in RB_LINKED:
        k = sum(1 for c, inside in in_project_candidates(rel) if inside is not None)
        plan.append((rel, cwd_rel, s, k))
    return plan


SCRIPT = "printf '%s|%s|%s|%s|%s\\n' {id} \"$1\" \"$2\" \"$3\" \"$(pwd -P)\"\n"


def run_placement(job):
    """One project: target_rel, spelling, mask (bit i set = i-th in-project candidate exists).  Returns a dict."""
    root, bindir, target_rel, cwd_rel, spelled, mask, idx = job
    TMPSFX = common.tmp_suffix(bindir)       # (".redo.tmp" on the pinned tree; the property only says "beside the target")
    top = os.path.join(root, f"j{idx}")
    PR = os.path.join(top, "pr")
    home = os.path.join(top, "home")
    res = {"target": target_rel, "cwd": cwd_rel, "spelled": spelled, "mask": mask, "violations": [], "runs": 0}
    try:
        os.makedirs(PR)
        os.makedirs(home)
        PRr = os.path.realpath(PR)
        tdir = os.path.dirname(target_rel)
        if tdir:
            os.makedirs(os.path.join(PR, tdir))
        # every directory the spelling walks through must exist, otherwise the spelling names nothing
        # for the kernel (`zz/../x` with no zz is ENOENT) and is not "a spelling of the same target"
        CWD = os.path.join(PR, cwd_rel) if cwd_rel else PR
        os.makedirs(CWD, exist_ok=True)
        CWDr = os.path.realpath(CWD)
        for lname, ltext in LINKS_OF.get((target_rel, cwd_rel, spelled), ()):
            os.makedirs(os.path.dirname(os.path.join(PR, lname)), exist_ok=True)
            os.symlink(ltext, os.path.join(PR, lname))
        cur = CWD
        for comp in spelled.split("/")[:-1]:
            if comp in ("", "."):
                continue
            cur = os.path.dirname(cur) if comp == ".." else os.path.join(cur, comp)
            os.makedirs(cur, exist_ok=True)
        cands = e4.ref_dofiles(PRr + "/" + target_rel)
        inside = [i for i, c in enumerate(cands) if c["do_dir"] == PRr or c["do_dir"].startswith(PRr + "/")]
        for i, c in enumerate(cands):
            if i not in inside and os.path.lexists(os.path.join(c["do_dir"], c["do_file"])):
                res["machinery"] = f"stray script above the project: {c['do_dir']}/{c['do_file']}"
                return res
        # a target called default.x has one file (default.x.do) at two places of the search order: the script is
        # identified by the first position of its path, and "exists" is a fact about the path
        cpath = [os.path.join(c["do_dir"], c["do_file"]) for c in cands]
        first_of = {}
        for i, pth in enumerate(cpath):
            first_of.setdefault(pth, i)
        present = set()
        for bit, i in enumerate(inside):
            if mask >> bit & 1:
                with open(cpath[i], "w") as fh:
                    fh.write(SCRIPT.format(id=first_of[cpath[i]]))
                present.add(cpath[i])
        placed = [i for i in inside if cpath[i] in present]
        res["placed"] = placed
        chosen = placed[0] if placed else None
        env = common.base_env(bindir, home)
        env["REDO_LOG"] = "0"

        def viol(kind, **kw):
            res["violations"].append(dict(kind=kind, **kw))

        # --- redo-whichdo
        rc, out, err = common.run_cmd([os.path.join(bindir, "redo-whichdo"), spelled], CWD, env, timeout=30)
        res["runs"] += 1
        if rc == -999:
            res["machinery"] = "watchdog on redo-whichdo"
            return res
        lines = out.split("\n")
        if lines and lines[-1] == "":
            lines.pop()
        got_abs = [e4.ref_clean(os.path.join(CWDr, l)) for l in lines]
        upto = cands if chosen is None else cands[:chosen + 1]
        want_abs = [c["do_dir"].rstrip("/") + "/" + c["do_file"] for c in upto]
        res["whichdo"] = {"rc": rc, "lines": lines}
        if got_abs != want_abs:
            viol("whichdo-list", got=[g.replace(PRr, "{PR}") for g in got_abs],
                 want=[w.replace(PRr, "{PR}") for w in want_abs], stderr=err[-300:])
        if chosen is None and rc == 0:
            viol("whichdo-status", rc=rc, note="no candidate exists but exit status 0")
        if chosen is not None and rc != 0:
            viol("whichdo-status", rc=rc, note="a candidate exists but exit status non-zero", stderr=err[-300:])
        for leftover in (".redo",):
            if os.path.lexists(os.path.join(PR, leftover)):
                viol("whichdo-wrote", path=leftover)

        # --- redo
        rc, out, err = common.run_cmd([os.path.join(bindir, "redo"), "--no-log", spelled], CWD, env, timeout=30)
        res["runs"] += 1
        if rc == -999:
            res["machinery"] = "watchdog on redo"
            return res
        tpath = os.path.join(PR, target_rel)
        res["redo"] = {"rc": rc}
        if chosen is None:
            if rc == 0:
                viol("no-rule-exit0", rc=rc, stderr=err[-300:])
            if os.path.lexists(tpath):
                viol("no-rule-target-created")
        else:
            c = cands[chosen]
            if rc != 0:
                viol("build-failed", rc=rc, stderr=err[-400:])
            elif not os.path.isfile(tpath):
                viol("target-missing-after-exit0", stderr=err[-300:])
            else:
                content = open(tpath, encoding="utf-8", errors="replace").read()
                res["redo"]["content"] = content.replace(PRr, "{PR}")
                fields = content.rstrip("\n").split("|")
                if len(fields) != 5 or not content.endswith("\n") or content.count("\n") != 1:
                    viol("target-content-malformed", content=content[:300])
                else:
                    gid, a1, a2, a3, cwd = fields
                    if gid != str(chosen):
                        viol("wrong-script", ran=gid, expected=chosen,
                             ran_script=(cands[int(gid)]["do_dir"].replace(PRr, "{PR}") + "/" + cands[int(gid)]["do_file"])
                             if gid.isdigit() and int(gid) < len(cands) else None,
                             expected_script=c["do_dir"].replace(PRr, "{PR}") + "/" + c["do_file"])
                    else:
                        if a1 != c["arg1"]:
                            viol("wrong-arg1", got=a1, want=c["arg1"])
                        if a2 != c["arg2"]:
                            viol("wrong-arg2", got=a2, want=c["arg2"])
                        if cwd != c["do_dir"]:
                            viol("wrong-cwd", got=cwd.replace(PRr, "{PR}"), want=c["do_dir"].replace(PRr, "{PR}"))
                        a3abs = e4.ref_clean(os.path.join(cwd, a3))
                        if os.path.dirname(a3abs) != os.path.dirname(e4.ref_clean(tpath.replace(PR, PRr, 1))) \
                                or not a3.endswith(TMPSFX) or os.path.basename(a3abs) == os.path.basename(tpath):
                            viol("wrong-arg3", got=a3, resolved=a3abs.replace(PRr, "{PR}"))
        return res
    finally:
        shutil.rmtree(top, ignore_errors=True)


def check_real(tier, verdict, cov, only=None):
    bindir = str(common.build_subject())
    root = str(common.scratch_root() / "c13")
    os.makedirs(root, exist_ok=True)
    jobs = []
    plan = rb_plan(tier) if only is None else [only]
    idx = 0
    for ent in plan:
        rel, cwd_rel, spelled, k = ent[:4]
        masks = range(1 << k) if len(ent) < 5 else [ent[4]]
        for mask in masks:
            jobs.append((root, bindir, rel, cwd_rel, spelled, mask, idx))
            idx += 1
    results = []
    with concurrent.futures.ProcessPoolExecutor(max_workers=min(16, max(1, common.NCPU))) as ex:
        for r in ex.map(run_placement, jobs, chunksize=4):
            results.append(r)
    runs = 0
    chosen_seen = set()
    allbad = []
    for r in results:
        if "machinery" in r:
            raise MachineryError(f"C13 real-binary part: {r['machinery']} ({r['target']} mask={r['mask']})")
        runs += r["runs"]
        chosen_seen.add((r["target"], r["cwd"], r["spelled"], r["placed"][0] if r["placed"] else None))
        for v in r["violations"]:
            allbad.append((r, v))
    allbad.sort(key=lambda rv: (bin(rv[0]["mask"]).count("1"), len(rv[0]["cwd"] + rv[0]["spelled"]), rv[0]["spelled"], rv[0]["mask"]))
    seen_sig = set()
    n = 0
    for r, v in allbad:
        sig = {"kind": v["kind"], "target": r["spelled"], "cwd": r["cwd"]}
        key = json.dumps(sig, sort_keys=True)
        if key in seen_sig:
            continue
        seen_sig.add(key)
        if n < 20:
            verdict.report(sig, {"engine": "E4-real", "check": "placement", "target": r["target"], "cwd": r["cwd"], "spelled": r["spelled"],
                                 "mask": r["mask"], "placed_candidate_indexes": r["placed"], "violation": v,
                                 "whichdo": r.get("whichdo"), "redo": r.get("redo")})
        n += 1
    if cov is not None:
        cov["real_binary"] = {
            "targets": [{"target": rel, "cwd": cw, "spelled": sp, "k": k, "placements": 1 << k} for rel, cw, sp, k in (e[:4] for e in plan)],
            "placements": len(jobs), "commands_run": runs,
            "distinct_(target,cwd,spelling,chosen)": len(chosen_seen), "violating_placements": len({(r["cwd"], r["spelled"], r["mask"])
                                                                                              for r, v in allbad}),
            "distinct_violation_signatures": len(seen_sig)}
        for r in results:
            if r["target"] == "d/a.b" and r["mask"] == 0b10100 and r["spelled"] == "d/a.b" and r["cwd"] == "":
                cov["samples"].append({"real_binary": {"target": r["target"], "placed_candidate_indexes": r["placed"],
                                                       "whichdo": r.get("whichdo"), "redo": r.get("redo")}})
        cov["evaluations"] += len(jobs)
        cov["distinct_nontrivial"] += len(chosen_seen)
    return allbad


RULE = ("E4: possible_do_files over every target = {'', '/r'} x {'', d, d.e, d/e, d/e/f} x 9 names (no/one/two dots, "
        "leading dot, double dot, trailing dot, space, unicode), thorough: x 10+ spellings with doubled separators, '.', "
        "'zz/..' detours and '/../..' at the root; compared field by field with the reference search order. Real binary: "
        "for each listed target all 2^k placements of its k in-project candidate scripts (quick k<=5, thorough k<=8), "
        "fresh project each; redo-whichdo list/status and redo's choice, $1, $2, $3, cwd judged against the reference. "
        "distinct_nontrivial = E4 target spellings whose name has a dot or whose spelling is not clean, plus distinct "
        "(target, cwd, spelling, first existing candidate) combinations exercised on the real binary")


def main(tier):
    t0 = time.time()
    verdict = common.Verdict(PID)
    cov = {"evaluations": 0, "distinct_nontrivial": 0, "samples": [], "rule": RULE, "exhaustive": True}
    try:
        check_e4(tier, verdict, cov)
        check_real(tier, verdict, cov)
        extra_checks(tier, verdict, cov)
    finally:
        common.cleanup_scratch()
    rc = verdict.finish(max_print=20)
    common.write_evidence(PID, tier, "exploration", cov, time.time() - t0, verdict.count,
                          ["reference search order written from the redo documentation / the C13 statement (rv/e4.py)",
                           "lexical cleaning of the target spelling uses the reference Clean that C15 validates",
                           "no default*.do exists in the scratch directory's ancestors (checked per project)",
                           "scripts are /bin/sh one-liners; names without newline or '|'"])
    rb = cov["real_binary"]
    print(f"[{PID}] tier={tier} e4-targets={cov['dofiles']['targets']} mismatches={cov['dofiles']['mismatch']} "
          f"placements={rb['placements']} commands={rb['commands_run']} violating-placements={rb['violating_placements']} "
          f"violations={verdict.count} wall={time.time()-t0:.1f}s")
    return rc


def replay(path):
    doc = json.load(open(path))
    bad = 0
    try:
        if doc.get("check") == "dofiles":
            sp = doc["input"]
            a = e4.run_harness("dofiles", [(sp,)])[0]
            got = e4.harness_dofiles_as_ref(a["ok"]) if "ok" in a else e4.ans_str(a)
            want = e4.ref_dofiles(sp)
            print(json.dumps({"redo": got, "reference": want}, indent=1, ensure_ascii=False))
            bad = int(got != want)
        elif doc.get("check") == "placement":
            k = sum(1 for c, inside in in_project_candidates(doc["target"]) if inside is not None)
            allbad = check_real("quick", common.Verdict(PID), None, only=(doc["target"], doc.get("cwd", ""), doc["spelled"], k, doc["mask"]))
            for r, v in allbad:
                print(json.dumps({"placed": r["placed"], "violation": v, "whichdo": r.get("whichdo"),
                                  "redo": r.get("redo")}, indent=1, ensure_ascii=False))
            bad = len(allbad)
        elif doc.get("check") == "degenerate":
            jail = common.make_jail(common.scratch_root() / "c13dg", common.build_subject())
            os.makedirs(str(jail / "p" / ".redo"), exist_ok=True)
            rc, out, err = common.run_jailed(jail, ["/bin/" + doc["tool"], os.fsencode(doc["argument"])], "/p", timeout=30)
            print(rc, err[-300:])
            bad = int(rc == 101 or "panicked" in err)
        elif doc.get("check") == "outside":
            root = str(common.scratch_root() / "c13h")
            os.makedirs(root, exist_ok=True)
            r = run_outside((root, str(common.build_subject()), tuple(doc["have"]), doc["foreign"], 0))
            print(json.dumps(r, indent=1, ensure_ascii=False))
            bad = len(r["violations"])
        elif doc.get("check") == "history":
            root = str(common.scratch_root() / "c13h")
            os.makedirs(root, exist_ok=True)
            r = run_history((root, str(common.build_subject()), doc["target"], doc["low"], doc["high"], doc["premkdir"], 0,
                             bool(doc.get("via_link")), doc.get("base", "")))
            print(json.dumps(r, indent=1, ensure_ascii=False))
            bad = len(r["violations"])
        else:
            raise MachineryError(f"C13 replay: unknown check {doc.get('check')!r}")
    finally:
        common.cleanup_scratch()
    print("VIOLATION-REPLAYED" if bad else "replay: no longer fails")
    return 1 if bad else 0
