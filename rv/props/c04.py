"""C04 -- targets are replaced atomically and only by complete, unambiguous output (engine E3, observe mode).

Programs = script behaviour x output size x prior target state; each is a tiny project with one t.do, built by
`redo --no-log t` under shim/crashshim.so in *observe* mode: before every state-changing libc call of every redo
process the harness is called back (the calling process is blocked) and reads the target.

Oracles
  at every callback   the target is the prior state (absent / complete old bytes) or the expected final state
                      (complete new bytes / absent), never anything else, and never goes back
  final               target bytes == expected; exit status: `redo` exits non-zero and reports the job status
                      "(exit N)" with N = 206 for a directly modified $1, 207 for stdout+$3, the script's own code,
                      the negative signal number for a killed script; exit 0 on success; no *.redo.tmp left
  shim log            the only mutations a *redo* process performs on the target path are one rename(tmp -> target)
                      (only in programs whose script exits 0 with exactly one output) or one unlink(target) (only in
                      the "no output" programs)
For the write-$1 behaviours "left as it was" is judged as "redo itself performed no mutation of the target" (the
script changed the bytes itself; redo cannot undo that), so the byte oracles are not applied to those.
"""
import json
import os
import re
import shutil
import time
from concurrent.futures import ProcessPoolExecutor
from pathlib import Path

from .. import common, e3
from ..common import MachineryError

PID = "C04"
OLD_SIZE = 5000

# name -> (script body, expectation)  expectation: ("ok-new" | "ok-absent" | "fail", job status or None)
BEHAVIOURS = {
    "stdout":          ('cat payload.new', ("ok-new", 0)),
    "file":            ('cat payload.new > "$3"', ("ok-new", 0)),
    "nothing":         (':', ("ok-absent", 0)),
    "both":            ('cat payload.new\ncat payload.new > "$3"', ("fail", 207)),
    "write1":          ('cat payload.new > "$1"', ("fail", 206)),
    "write1+stdout":   ('cat payload.new > "$1"\ncat payload.new', ("fail", 206)),
    # direct writes that leave $1 with an OLDER / identical-looking time stamp than before (cp -p, touch -r, tar x)
    "write1-oldmtime": ('cat payload.new > "$1"\ntouch -d "2001-02-03 04:05:06" "$1"', ("fail", 206)),
    "write1-oldmtime+stdout": ('cat payload.new > "$1"\ntouch -d "2001-02-03 04:05:06" "$1"\ncat payload.new', ("fail", 206)),
    "create-delete":   ('cat payload.new > "$3"\nrm -f "$3"', ("ok-absent", 0)),
    "stdout-exit5":    ('cat payload.new\nexit 5', ("fail", 5)),
    "file-exit5":      ('cat payload.new > "$3"\nexit 5', ("fail", 5)),
    "partial-stdout-kill9":  ('head -c %(half)d payload.new\nkill -9 $$\ncat payload.new', ("fail", -9)),
    "partial-file-killTERM": ('head -c %(half)d payload.new > "$3"\nkill -TERM $$\ncat payload.new > "$3"', ("fail", -15)),
}
WRITES_TARGET_ITSELF = ("write1", "write1+stdout", "write1-oldmtime", "write1-oldmtime+stdout")

_W = {}


def _init(bindir, root):
    _W["bindir"] = bindir
    _W["root"] = Path(root)


def pattern(size, tag):
    unit = (tag * 7 + "-0123456789abcdef\n").encode()
    return (unit * (size // len(unit) + 1))[:size]


def programs(tier):
    sizes = (1, 70000) if tier == "quick" else (1, 4096, 70000)
    out = []
    for b in BEHAVIOURS:
        for prior in ("absent", "generated"):
            for size in (sizes if b != "nothing" else sizes[:1]):   # "nothing" has no output: one size only
                out.append({"behaviour": b, "size": size, "prior": prior})
    return out


def _state(path: Path, old: bytes, new: bytes):
    try:
        if path.is_dir():
            return "dir"
        d = path.read_bytes()
    except FileNotFoundError:
        return "absent"
    if d == new:
        return "new"
    if d == old:
        return "old"
    return "other:%d:%s" % (len(d), "prefix-of-new" if new.startswith(d) else "prefix-of-old" if old.startswith(d) else "foreign")


def run_program(prog):
    b, size, prior = prog["behaviour"], prog["size"], prog["prior"]
    body, (expect, status) = BEHAVIOURS[b]
    root = _W["root"] / f"p_{os.getpid()}_{time.monotonic_ns()}"
    p = root / "p"
    home = root / "home"
    p.mkdir(parents=True)
    home.mkdir()
    t0 = time.time()
    res = {"program": prog, "violations": [], "observations": []}
    try:
        new, old = pattern(size, "n"), pattern(OLD_SIZE, "o")
        (p / "payload.new").write_bytes(new)
        (p / "payload.old").write_bytes(old)
        env = common.base_env(_W["bindir"], home)
        target = p / "t"
        if prior == "generated":
            (p / "t.do").write_text("cat payload.old\n")
            r = e3.run_session(["redo", "--no-log", "t"], p, env, root, "prior", timeout=60)
            if r["rc"] != 0 or _state(target, old, new) != "old":
                raise MachineryError("could not produce the prior generated target: " + r["err"][-300:])
        prior_state = "old" if prior == "generated" else "absent"
        (p / "t.do").write_text(body % {"half": max(1, size // 2)} + "\n")
        senv, log, procs = e3.shim_env(env, root, "obs", observe=root / "o.sock")
        obs = []

        def cb(msg):
            obs.append((msg["lid"], msg["idx"], msg["call"], e3.path_class(msg["path"], str(root), targets={"t"}),
                        e3.path_class(msg["path2"], str(root), targets={"t"}), _state(target, old, new)))
        with e3.Observer(root / "o.sock", cb):
            r = e3.run_session(["redo", "--no-log", "t"], p, senv, root, "obs", timeout=60)
        if r["watchdog"]:
            raise MachineryError(f"program {prog} hit the 60 s watchdog under observation")
        final = _state(target, old, new)
        calls = e3.parse_log(log)
        n_counted = sum(1 for c in calls if c.redo and c.idx is not None)
        if n_counted != len(obs):
            raise MachineryError(f"observer saw {len(obs)} callbacks but the shim logged {n_counted} counted redo calls")
        res["observations"] = obs
        res["rc"] = r["rc"]
        res["stderr"] = r["err"][-800:]
        res["final"] = final
        V = res["violations"]
        judged_bytes = b not in WRITES_TARGET_ITSELF
        want_final = {"ok-new": "new", "ok-absent": "absent", "fail": prior_state}[expect]
        # ---- every instant -----------------------------------------------------------------------
        if judged_bytes:
            switched = False
            for (lid, idx, call, pc, pc2, st) in obs + [("final", 0, "-", None, None, final)]:
                if st == want_final and st != prior_state:
                    switched = True
                elif st == prior_state and not switched:
                    pass
                elif st == prior_state and switched and prior_state != want_final:
                    V.append(("target-went-back-to-prior-state", call, pc, f"{lid}:{idx} saw {st} after {want_final}"))
                    break
                elif st not in (prior_state, want_final):
                    V.append(("partial-or-foreign-target-visible", call, pc, f"{lid}:{idx} saw {st}"))
                    break
            if final != want_final:
                V.append(("final-target-wrong", "-", "target", f"want {want_final}, got {final}"))
        # ---- exit status -------------------------------------------------------------------------
        m = re.findall(r"\(exit (-?\d+)\)", r["err"])
        if expect == "fail":
            if r["rc"] == 0:
                V.append(("exit-0-on-failure", "-", None, r["err"][-200:]))
            elif [int(x) for x in m] != [status]:
                V.append(("wrong-job-status", "-", None, f"want (exit {status}), stderr reports {m}"))
        else:
            if r["rc"] != 0:
                V.append(("nonzero-exit-on-success", "-", None, f"rc={r['rc']} {r['err'][-200:]}"))
        # ---- temp files ----------------------------------------------------------------------------
        tmps = e3.leftover_tmps(p)
        if tmps:
            V.append(("tmp-left-behind", "-", "tmp", str(tmps)))
        # ---- redo's own mutations of the target path ------------------------------------------------
        tp = str(target)
        muts = [(e3.norm_call(c.call), "src" if c.path == tp else "dst") for c in calls
                if c.redo and c.call != "KILL" and (c.path == tp or c.path2 == tp)]
        res["redo_mutations_of_target"] = muts
        allowed = {"ok-new": [("rename", "dst")], "ok-absent": [("unlink", "src")], "fail": []}[expect]
        if muts != allowed and not (expect == "ok-absent" and muts == []):
            V.append(("redo-mutated-target-unexpectedly", muts[0][0] if muts else "-", "target",
                      f"redo processes issued {muts} on the target path; allowed exactly {allowed}"))
        if expect == "ok-new":
            # the rename source must be the temp file next to the target
            rn = [c for c in calls if c.redo and c.path2 == tp]
            if rn and not rn[0].path.endswith("/t.redo.tmp"):
                V.append(("rename-from-unexpected-source", "rename", "target", rn[0].path))
        res["t"] = round(time.time() - t0, 3)
        res["prior_state"] = prior_state
        return res
    finally:
        shutil.rmtree(root, ignore_errors=True)


def _rle(obs):
    out = []
    for (lid, idx, call, pc, pc2, st) in obs:
        key = st
        if out and out[-1][0] == key:
            out[-1][1] += 1
        else:
            out.append([key, 1, f"first at {lid}:{idx} before {call}({pc}{'->' + pc2 if pc2 else ''})"])
    return out


def main(tier):
    t0 = time.time()
    bindir = common.build_subject()
    e3.ensure_shim()
    root = common.scratch_root() / "c04"
    root.mkdir(parents=True, exist_ok=True)
    verdict = common.Verdict(PID)
    progs = programs(tier)
    try:
        with ProcessPoolExecutor(max_workers=min(16, common.NCPU), initializer=_init, initargs=(str(bindir), str(root))) as pool:
            results = list(pool.map(run_program, progs))
    finally:
        common.cleanup_scratch()
    evaluations = 0
    nontrivial = set()
    states_seen = set()
    samples = []
    nviol = 0
    for r in results:
        pr = r["program"]
        evaluations += len(r["observations"]) + 1
        for (lid, idx, call, pc, pc2, st) in r["observations"]:
            states_seen.add(st.split(":")[0])
            if pc in ("target", "tmp", "stdout-tmp") or pc2 == "target" or st != r["prior_state"]:
                nontrivial.add((pr["behaviour"], pr["size"], pr["prior"], e3.role_of(lid), call, pc, pc2, st))
        for (kind, call, pc, detail) in r["violations"]:
            nviol += 1
            verdict.report({"kind": kind, "behaviour": pr["behaviour"], "size": pr["size"], "prior": pr["prior"],
                            "call": call, "path_class": pc},
                           {"engine": "E3-observe", "program": pr, "detail": detail, "rc": r["rc"], "stderr": r["stderr"],
                            "final": r["final"], "redo_mutations_of_target": r["redo_mutations_of_target"],
                            "target_states_run_length": _rle(r["observations"])})
    for want in (("stdout", 70000, "generated"), ("partial-stdout-kill9", 70000, "generated"), ("nothing", 1, "generated"),
                 ("both", 70000, "absent")):
        for r in results:
            pr = r["program"]
            if (pr["behaviour"], pr["size"], pr["prior"]) == want:
                samples.append({"program": pr, "script": BEHAVIOURS[pr["behaviour"]][0], "rc": r["rc"],
                                "observation_points": len(r["observations"]), "final": r["final"],
                                "redo_mutations_of_target": r["redo_mutations_of_target"],
                                "target_states_run_length": _rle(r["observations"])})
    cov = {
        "evaluations": evaluations,
        "distinct_nontrivial": len(nontrivial),
        "rule": "programs = 11 script behaviours x output sizes x prior target state {absent, generated earlier with "
                "different bytes} ('nothing' once per prior); evaluations = observation points = callbacks before every "
                "state-changing libc call of every redo process, plus one final observation per program; at each the "
                "target is read and judged. distinct_nontrivial = distinct (behaviour, size, prior, process role, call, "
                "path class, observed target state) tuples among the observation points whose call touches the target, "
                "its temp file or the stdout capture file, or at which the target differs from its prior state",
        "samples": samples,
        "exhaustive": True,
        "programs": len(results),
        "sizes": sorted({p["size"] for p in progs}),
        "behaviours": list(BEHAVIOURS),
        "target_states_observed": sorted(states_seen),
        "observer_callbacks_equal_shim_counted_calls": True,
        "violating_checks": nviol,
    }
    rc = verdict.finish()
    common.write_evidence(PID, tier, "fault_enumeration", cov, time.time() - t0, verdict.count, [
        "observation instants are the boundaries before state-changing libc calls of redo processes; between two such "
        "calls redo changes nothing in the file system, so a reader cannot see any other target state caused by redo",
        "for the write-$1 behaviours only redo's own calls on the target path are judged (the script itself modifies it)",
        "`redo --no-log t`, -j1, single directory; prior state 'plain user file' is out of scope here (redo never runs "
        "the script for it)",
        "the job status is read from redo's '(exit N)' message; the redo command itself exits 1 for any failed target",
    ])
    print(f"[{PID}] tier={tier} programs={len(results)} observation_points={evaluations} nontrivial={len(nontrivial)} "
          f"violations={nviol} wall={time.time()-t0:.1f}s")
    return rc


def replay(path):
    doc = json.load(open(path))
    bindir = common.build_subject()
    e3.ensure_shim()
    root = common.scratch_root() / "c04"
    root.mkdir(parents=True, exist_ok=True)
    _init(str(bindir), str(root))
    try:
        r = run_program(doc["program"])
    finally:
        common.cleanup_scratch()
    print(json.dumps({"program": r["program"], "rc": r["rc"], "stderr": r["stderr"], "final": r["final"],
                      "redo_mutations_of_target": r["redo_mutations_of_target"],
                      "target_states_run_length": _rle(r["observations"]), "violations": r["violations"]}, indent=1))
    if r["violations"]:
        print("VIOLATION-REPLAYED", r["violations"])
        return 1
    return 0
