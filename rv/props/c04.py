"""C04 -- targets are replaced atomically and only by complete, unambiguous output (engine E3, observe mode).

Programs = script behaviour x output size x prior target state; each is a tiny project with one t.do, built by
`redo --no-log t` under shim/crashshim.so in *observe* mode: before every state-changing libc call of every redo
process the harness is called back (the calling process is blocked) and reads the target.

Oracles
  at every callback   the target is the prior state (absent / complete old bytes) or the expected final state
                      (complete new bytes / absent), never anything else, and never goes back
  final               target bytes == expected; exit status: `redo` exits non-zero and reports the job status
                      "(exit N)" with N = 206 for a directly modified $1, 207 for stdout+$3, the script's own code,
                      the negative signal number for a killed script; exit 0 on success; no *.redo.tmp left
  shim log            the only mutations a *redo* process performs on the target path are one rename(tmp -> target)
                      (only in programs whose script exits 0 with exactly one output) or one unlink(target) (only in
                      the "no output" programs)
For the write-$1 behaviours "left as it was" is judged as "redo itself performed no mutation of the target" (the
script changed the bytes itself; redo cannot undo that), so the byte oracles are not applied to those.
"""
import json
import os
import re
import shutil
import time
from concurrent.futures import ProcessPoolExecutor
from pathlib import Path

from .. import common, e3
from ..common import MachineryError

PID = "C04"
OLD_SIZE = 5000

# A behaviour is a point of the product  stdout x $3 x $1 x end-of-script:
#   o: none | data                     what the script writes to stdout
#   f: none | empty | data | deleted   $3 not touched / created empty / written / written then removed
#   w: none | new | old                $1 not touched / written directly / written directly and given an OLDER mtime
#   e: 0 | 5 | kill9 | killTERM        exit status, or a signal in the middle of the output (only half of it written)
# Expectation (documented rules): the faults present are {206 if $1 was written, 207 if stdout is non-empty and $3
# exists, the script's own status / signal}; if there is any fault the command fails with one of those statuses and
# the target stays as it was; otherwise the target becomes $3 (even when empty) if $3 exists, else stdout if
# non-empty, else it is removed.
O_, F_, W_, E_ = ("none", "data"), ("none", "empty", "data", "deleted", "append", "dir", "link", "hardlink"), ("none", "new", "old"), ("0", "5", "kill9", "killTERM")
# f=dir: the script makes $3 a DIRECTORY (and then fails): only combined with o=none, w=none, e=5 -- the failure has to be
# reported with the script's status and the directory removed like any other temporary output.
# f=link: the script makes $3 a symbolic link whose pointee does not exist (a dangling link is still "$3 exists": it is
# installed as the target, and together with stdout it is the 207 fault); combined with w=none and e in {0, 5}.
# f=hardlink: the script makes $3 a hard link of the existing target (`ln "$1" "$3"`; without a previous target it writes $3
# normally): the "new" output is the old file under a second name -- rename(2) of two names of one inode does nothing, so the
# temporary name has to go some other way.  Combined with o=none, w=none, e=0 and the prior state "generated".
# f=append: the script builds $3 with `>>` (legitimate: redo promises that $3 does not exist when the script starts).  It
# differs from f=data only when a temporary file is lying around from an earlier, killed build: the prior states
# "stale-tmp" (never built) and "generated+stale-tmp" put one there.


def behaviour_name(o, f, w, e):
    return "o=%s,f=%s,w=%s,e=%s" % (o, f, w, e)


def make_behaviour(o, f, w, e):
    """-> (script body, (expect, statuses, new-bytes-kind))"""
    part = e.startswith("kill")
    src = 'head -c %(half)d payload.new' if part else 'cat payload.new'
    L = []
    if o == "data":
        L.append(src)
    if f == "empty":
        L.append(': > "$3"')
    elif f == "data":
        L.append(src + ' > "$3"')
    elif f == "append":
        L.append(src + ' >> "$3"')
    elif f == "dir":
        L.append('mkdir "$3"')
        L.append(src + ' > "$3/inside"')
    elif f == "link":
        L.append('ln -s no-such-file "$3"')
    elif f == "hardlink":
        L.append('if [ -e "$1" ]; then ln "$1" "$3"; else ' + src + ' > "$3"; fi')
    elif f == "deleted":
        L.append(src + ' > "$3"')
        L.append('rm -f "$3"')
    if w != "none":
        L.append(src + ' > "$1"')
        if w == "old":
            L.append('touch -d "2001-02-03 04:05:06" "$1"')
    if e == "5":
        L.append("exit 5")
    elif e == "kill9":
        L.append("kill -9 $$")
        L.append("cat payload.new")
    elif e == "killTERM":
        L.append("kill -TERM $$")
        L.append("cat payload.new")
    if not L:
        L.append(":")
    faults = set()
    if w != "none":
        faults.add(206)
    if o == "data" and f in ("empty", "data", "append", "link"):
        faults.add(207)
    if e == "5":
        faults.add(5)
    elif e == "kill9":
        faults.add(-9)
    elif e == "killTERM":
        faults.add(-15)
    if faults:
        return "\n".join(L), ("fail", sorted(faults), None)
    if f == "empty":
        return "\n".join(L), ("ok-new", [0], "empty")
    if f == "link":
        return "\n".join(L), ("ok-new", [0], "link")
    if f == "hardlink":
        return "\n".join(L), ("ok-new", [0], "old")     # the complete new target is the old bytes again
    if f in ("data", "append") or o == "data":
        return "\n".join(L), ("ok-new", [0], "new")
    return "\n".join(L), ("ok-absent", [0], None)


BEHAVIOURS = {behaviour_name(o, f, w, e): make_behaviour(o, f, w, e) for o in O_ for f in F_ for w in W_ for e in E_
              if (f != "dir" or (o, w, e) == ("none", "none", "5")) and (f != "link" or (w == "none" and e in ("0", "5")))
              and (f != "hardlink" or (o, w, e) == ("none", "none", "0"))}


def writes_target_itself(b):
    return ",w=none," not in b


def has_output(b):
    return "o=data" in b or "f=data" in b or "f=hardlink" in b or "f=append" in b or "f=deleted" in b or "f=dir" in b or "f=link" in b or ",w=new" in b or ",w=old" in b


_W = {}


def _init(bindir, root):
    _W["bindir"] = bindir
    _W["root"] = Path(root)


def pattern(size, tag):
    unit = (tag * 7 + "-0123456789abcdef\n").encode()
    return (unit * (size // len(unit) + 1))[:size]


def programs(tier):
    sizes = (1, 70000) if tier == "quick" else (1, 4096, 70000)
    out = []
    for b in BEHAVIOURS:
        if tier == "quick" and "e=killTERM" in b:
            continue      # quick: one signal (SIGKILL); thorough: also SIGTERM
        for prior in ("absent", "generated", "stale-tmp", "generated+stale-tmp", "directory"):
            if prior == "directory" and not (",w=none," in b and b.endswith("e=0") and ("o=data" in b or "f=data" in b or "f=empty" in b)
                                             and "f=append" not in b):
                continue     # the target path is a directory: interesting for scripts that exit 0 with output -- installing it must fail cleanly
            if "stale-tmp" in prior and not (",w=none," in b and b.endswith("e=0")):
                continue     # a leftover temporary file matters to the scripts that succeed without touching $1
            if "stale-tmp" not in prior and "f=append" in b:
                continue     # without a leftover file f=append is f=data
            if "f=hardlink" in b and prior != "generated":
                continue
            for size in (sizes if has_output(b) else sizes[:1]):   # behaviours without payload output: one size only
                out.append({"behaviour": b, "size": size, "prior": prior})
    return out


def _state(path: Path, old: bytes, new: bytes):
    try:
        if path.is_symlink():
            return "new" if new == b"L:" + os.readlink(path).encode() else "link:" + os.readlink(path)
        if path.is_dir():
            return "dir"
        d = path.read_bytes()
    except FileNotFoundError:
        return "absent"
    if d == new:
        return "new"
    if d == old:
        return "old"
    return "other:%d:%s" % (len(d), "prefix-of-new" if new.startswith(d) else "prefix-of-old" if old.startswith(d) else "foreign")


def run_program(prog):
    b, size, prior = prog["behaviour"], prog["size"], prog["prior"]
    body, (expect, statuses, newkind) = BEHAVIOURS[b]
    root = _W["root"] / f"p_{os.getpid()}_{time.monotonic_ns()}"
    p = root / "p"
    home = root / "home"
    p.mkdir(parents=True)
    home.mkdir()
    t0 = time.time()
    res = {"program": prog, "violations": [], "observations": []}
    try:
        new, old = pattern(size, "n"), pattern(OLD_SIZE, "o")
        (p / "payload.new").write_bytes(new)
        if newkind == "empty":
            new = b""          # the script leaves an empty $3: that is the complete new target
        if newkind == "link":
            new = b"L:no-such-file"    # the script leaves a dangling symbolic link: that link is the new target
        if newkind == "old":
            new = pattern(OLD_SIZE, "o")   # the script re-publishes the previous target
        (p / "payload.old").write_bytes(old)
        env = common.base_env(_W["bindir"], home)
        target = p / "t"
        if prior.startswith("generated"):
            (p / "t.do").write_text("cat payload.old\n")
            r = e3.run_session(["redo", "--no-log", "t"], p, env, root, "prior", timeout=60)
            if r["rc"] != 0 or target.read_bytes() != old:
                raise MachineryError("could not produce the prior generated target: " + r["err"][-300:])
        prior_state = "old" if prior.startswith("generated") else "absent"
        if newkind == "old" and prior_state == "old":
            prior_state = "new"       # the previous target and the complete new one are the same bytes
        if prior == "directory":
            target.mkdir()
            (target / "keep").write_text("the user's\n")
            prior_state = "dir"
            if expect.startswith("ok"):
                # the output cannot replace a directory: the command has to fail, leave the directory alone and clean up
                expect, statuses = "fail-dir", None
        if "stale-tmp" in prior:
            # what a build killed while its script was writing $3 leaves behind
            (p / ("t" + common.tmp_suffix())).write_bytes(b"partial output of a build that was killed\n")
        (p / "t.do").write_text(body % {"half": max(1, size // 2)} + "\n")
        senv, log, procs = e3.shim_env(env, root, "obs", observe=root / "o.sock")
        obs = []

        def cb(msg):
            obs.append((msg["lid"], msg["idx"], msg["call"], e3.path_class(msg["path"], str(root), targets={"t"}),
                        e3.path_class(msg["path2"], str(root), targets={"t"}), _state(target, old, new)))
        with e3.Observer(root / "o.sock", cb):
            r = e3.run_session(["redo", "--no-log", "t"], p, senv, root, "obs", timeout=60)
        if r["watchdog"]:
            raise MachineryError(f"program {prog} hit the 60 s watchdog under observation")
        final = _state(target, old, new)
        calls = e3.parse_log(log)
        n_counted = sum(1 for c in calls if c.redo and c.idx is not None)
        if n_counted != len(obs):
            raise MachineryError(f"observer saw {len(obs)} callbacks but the shim logged {n_counted} counted redo calls")
        res["observations"] = obs
        res["rc"] = r["rc"]
        res["stderr"] = r["err"][-800:]
        res["final"] = final
        V = res["violations"]
        judged_bytes = not writes_target_itself(b)
        want_final = {"ok-new": "new", "ok-absent": "absent", "fail": prior_state, "fail-dir": "dir"}[expect]
        # ---- every instant -----------------------------------------------------------------------
        if judged_bytes:
            switched = False
            for (lid, idx, call, pc, pc2, st) in obs + [("final", 0, "-", None, None, final)]:
                if st == want_final and st != prior_state:
                    switched = True
                elif st == prior_state and not switched:
                    pass
                elif st == prior_state and switched and prior_state != want_final:
                    V.append(("target-went-back-to-prior-state", call, pc, f"{lid}:{idx} saw {st} after {want_final}"))
                    break
                elif st not in (prior_state, want_final):
                    V.append(("partial-or-foreign-target-visible", call, pc, f"{lid}:{idx} saw {st}"))
                    break
            if final != want_final:
                V.append(("final-target-wrong", "-", "target", f"want {want_final}, got {final}"))
        # ---- exit status -------------------------------------------------------------------------
        m = re.findall(r"\(exit (-?\d+)\)", r["err"])
        if expect == "fail-dir":
            if r["rc"] == 0:
                V.append(("exit-0-on-failure", "-", None, r["err"][-200:]))
            if not (target / "keep").exists():
                V.append(("directory-target-damaged", "-", "target", "the file inside the directory is gone"))
        elif expect == "fail":
            if r["rc"] == 0:
                V.append(("exit-0-on-failure", "-", None, r["err"][-200:]))
            elif len(m) != 1 or int(m[0]) not in statuses:
                V.append(("wrong-job-status", "-", None, f"want (exit N) with N in {statuses}, stderr reports {m}"))
        else:
            if r["rc"] != 0:
                V.append(("nonzero-exit-on-success", "-", None, f"rc={r['rc']} {r['err'][-200:]}"))
        # ---- temp files ----------------------------------------------------------------------------
        tmps = e3.leftover_tmps(p)
        if tmps:
            V.append(("tmp-left-behind", "-", "tmp", str(tmps)))
        # ---- redo's own mutations of the target path ------------------------------------------------
        tp = str(target)
        muts = [(e3.norm_call(c.call), "src" if c.path == tp else "dst") for c in calls
                if c.redo and c.call != "KILL" and (c.path == tp or c.path2 == tp)]
        res["redo_mutations_of_target"] = muts
        allowed = {"ok-new": [("rename", "dst")], "ok-absent": [("unlink", "src")], "fail": [], "fail-dir": [("rename", "dst")]}[expect]
        if muts != allowed and not (expect == "ok-absent" and muts == []):
            V.append(("redo-mutated-target-unexpectedly", muts[0][0] if muts else "-", "target",
                      f"redo processes issued {muts} on the target path; allowed exactly {allowed}"))
        if expect == "ok-new":
            # the rename source must be the temp file next to the target
            rn = [c for c in calls if c.redo and c.path2 == tp]
            if rn and not rn[0].path.endswith("/t" + common.tmp_suffix()):
                V.append(("rename-from-unexpected-source", "rename", "target", rn[0].path))
        res["t"] = round(time.time() - t0, 3)
        res["prior_state"] = prior_state
        return res
    finally:
        shutil.rmtree(root, ignore_errors=True)


# ---------------------------------------------------------------------------
# two targets at once: every target has a temporary output file of its own

PAIRS = [("foo.a", "foo.b"), ("foo", "foo.x"), ("a.b.c", "a.b.d"), ("foo.a", "bar.a"), ("x.redo", "x")]


def pair_programs(tier):
    out = []
    for pair in PAIRS:
        for mode in ("nested", "serial", "j2"):
            for prior in ("absent", "generated"):
                out.append({"pair": list(pair), "mode": mode, "prior": prior})
    return out


def run_pair(prog):
    """Two targets of one directory built by one command -- one from inside the other's script, one after the other, or both
    at the same time (the scripts wait for each other's first half, so their executions overlap for certain): each becomes
    exactly what its own script wrote to its own $3, and no temporary file is left."""
    (n1, n2), mode, prior = prog["pair"], prog["mode"], prog["prior"]
    root = _W["root"] / f"q_{os.getpid()}_{time.monotonic_ns()}"
    p = root / "p"
    home = root / "home"
    p.mkdir(parents=True)
    home.mkdir()
    res = {"program": prog, "violations": [], "observations": []}
    try:
        env = common.base_env(_W["bindir"], home)
        if prior == "generated":
            for n in (n1, n2):
                (p / (n + ".do")).write_text('echo "old %s"\n' % n)
            r = e3.run_session(["redo", "--no-log", n1, n2], p, env, root, "prior", timeout=60)
            if r["rc"] != 0:
                raise MachineryError("could not produce the prior generated pair: " + r["err"][-300:])
        wait = 'i=0; while [ ! -e "%s" ] && [ $i -lt 200 ]; do sleep 0.05; i=$((i+1)); done'
        if mode == "nested":
            (p / (n1 + ".do")).write_text('echo "first half of $1" >> "$3"\nredo-ifchange "%s" || exit 9\necho "second half of $1" >> "$3"\n' % n2)
            (p / (n2 + ".do")).write_text('echo "first half of $1" >> "$3"\necho "second half of $1" >> "$3"\n')
            argv = ["redo", "--no-log", n1]
        else:
            for me, other in ((n1, n2), (n2, n1)):
                body = 'echo "first half of $1" >> "$3"\n'
                if mode == "j2":
                    body += ': > "started.$1"\n' + (wait % ("started." + other)) + "\n"
                body += 'echo "second half of $1" >> "$3"\n'
                (p / (me + ".do")).write_text(body)
            argv = ["redo", "--no-log"] + (["-j2"] if mode == "j2" else []) + [n1, n2]
        r = e3.run_session(argv, p, env, root, "pair", timeout=90)
        res["rc"], res["stderr"] = r["rc"], r["err"][-800:]
        V = res["violations"]
        if r["watchdog"]:
            V.append(("pair-command-hung", "-", None, ""))
        elif r["rc"] != 0:
            V.append(("pair-command-failed", "-", None, r["err"][-300:]))
        for n in (n1, n2):
            want = "first half of %s\nsecond half of %s\n" % (n, n)
            try:
                got = (p / n).read_text()
            except OSError:
                got = None
            if got != want:
                V.append(("pair-target-wrong", "-", "target", "%s: want %r, got %r" % (n, want, got)))
        tmps = e3.leftover_tmps(p)
        if tmps:
            V.append(("tmp-left-behind", "-", "tmp", str(tmps)))
        res["final"] = {n: ((p / n).read_text() if (p / n).is_file() else None) for n in (n1, n2)}
        res["redo_mutations_of_target"] = []
        res["prior_state"] = prior
        return res
    finally:
        shutil.rmtree(root, ignore_errors=True)


def _rle(obs):
    out = []
    for (lid, idx, call, pc, pc2, st) in obs:
        key = st
        if out and out[-1][0] == key:
            out[-1][1] += 1
        else:
            out.append([key, 1, f"first at {lid}:{idx} before {call}({pc}{'->' + pc2 if pc2 else ''})"])
    return out


def main(tier):
    t0 = time.time()
    bindir = common.build_subject()
    e3.ensure_shim()
    root = common.scratch_root() / "c04"
    root.mkdir(parents=True, exist_ok=True)
    verdict = common.Verdict(PID)
    progs = programs(tier)
    try:
        with ProcessPoolExecutor(max_workers=min(16, common.NCPU), initializer=_init, initargs=(str(bindir), str(root))) as pool:
            results = list(pool.map(run_program, progs))
            pairs = list(pool.map(run_pair, pair_programs(tier)))
    finally:
        common.cleanup_scratch()
    evaluations = 0
    nontrivial = set()
    states_seen = set()
    samples = []
    nviol = 0
    for r in results:
        pr = r["program"]
        evaluations += len(r["observations"]) + 1
        for (lid, idx, call, pc, pc2, st) in r["observations"]:
            states_seen.add(st.split(":")[0])
            if pc in ("target", "tmp", "stdout-tmp") or pc2 == "target" or st != r["prior_state"]:
                nontrivial.add((pr["behaviour"], pr["size"], pr["prior"], e3.role_of(lid), call, pc, pc2, st))
        for (kind, call, pc, detail) in r["violations"]:
            nviol += 1
            verdict.report({"kind": kind, "behaviour": pr["behaviour"], "size": pr["size"], "prior": pr["prior"],
                            "call": call, "path_class": pc},
                           {"engine": "E3-observe", "program": pr, "detail": detail, "rc": r["rc"], "stderr": r["stderr"],
                            "final": r["final"], "redo_mutations_of_target": r["redo_mutations_of_target"],
                            "target_states_run_length": _rle(r["observations"])})
    for r in pairs:
        pr = r["program"]
        evaluations += 1
        nontrivial.add(("pair", tuple(pr["pair"]), pr["mode"], pr["prior"]))
        for (kind, call, pc, detail) in r["violations"]:
            nviol += 1
            verdict.report({"kind": kind, "pair": "+".join(pr["pair"]), "mode": pr["mode"], "prior": pr["prior"]},
                           {"engine": "E1", "program": pr, "detail": detail, "rc": r.get("rc"), "stderr": r.get("stderr"),
                            "final": r.get("final")})
    for want in (("o=data,f=none,w=none,e=0", 70000, "generated"), ("o=data,f=none,w=none,e=kill9", 70000, "generated"),
                 ("o=none,f=none,w=none,e=0", 1, "generated"), ("o=data,f=empty,w=none,e=0", 70000, "absent")):
        for r in results:
            pr = r["program"]
            if (pr["behaviour"], pr["size"], pr["prior"]) == want:
                samples.append({"program": pr, "script": BEHAVIOURS[pr["behaviour"]][0], "rc": r["rc"],
                                "observation_points": len(r["observations"]), "final": r["final"],
                                "redo_mutations_of_target": r["redo_mutations_of_target"],
                                "target_states_run_length": _rle(r["observations"])})
    cov = {
        "evaluations": evaluations,
        "distinct_nontrivial": len(nontrivial),
        "rule": "programs = script behaviours (the full product stdout {none, data} x $3 {untouched, created empty, written, "
                "written then removed} x $1 {untouched, written directly, written directly with an older mtime} x end {exit 0, "
                "exit 5, SIGKILL in mid-output; thorough also SIGTERM}) x output sizes x prior target state {absent, generated "
                "earlier with different bytes} (behaviours without payload output once per prior); evaluations = observation points = callbacks before every "
                "state-changing libc call of every redo process, plus one final observation per program; at each the "
                "target is read and judged. distinct_nontrivial = distinct (behaviour, size, prior, process role, call, "
                "path class, observed target state) tuples among the observation points whose call touches the target, "
                "its temp file or the stdout capture file, or at which the target differs from its prior state",
        "samples": samples,
        "exhaustive": True,
        "programs": len(results),
        "pair_programs": {"pairs": PAIRS, "modes": ["nested", "serial", "j2 (overlap forced by the scripts)"], "priors": ["absent", "generated"],
                          "count": len(pairs), "oracle": "each target is exactly what its own script wrote to its own $3; exit 0; no *.redo.tmp left"},
        "sizes": sorted({p["size"] for p in progs}),
        "behaviours": list(BEHAVIOURS),
        "target_states_observed": sorted(states_seen),
        "observer_callbacks_equal_shim_counted_calls": True,
        "violating_checks": nviol,
    }
    rc = verdict.finish()
    common.write_evidence(PID, tier, "fault_enumeration", cov, time.time() - t0, verdict.count, [
        "observation instants are the boundaries before state-changing libc calls of redo processes; between two such "
        "calls redo changes nothing in the file system, so a reader cannot see any other target state caused by redo",
        "for the write-$1 behaviours only redo's own calls on the target path are judged (the script itself modifies it)",
        "`redo --no-log t`, -j1, single directory; prior state 'plain user file' is out of scope here (redo never runs "
        "the script for it)",
        "the job status is read from redo's '(exit N)' message; the redo command itself exits 1 for any failed target",
    ])
    print(f"[{PID}] tier={tier} programs={len(results)} observation_points={evaluations} nontrivial={len(nontrivial)} "
          f"violations={nviol} wall={time.time()-t0:.1f}s")
    return rc


def replay(path):
    doc = json.load(open(path))
    bindir = common.build_subject()
    e3.ensure_shim()
    root = common.scratch_root() / "c04"
    root.mkdir(parents=True, exist_ok=True)
    _init(str(bindir), str(root))
    try:
        r = run_pair(doc["program"]) if "pair" in doc["program"] else run_program(doc["program"])
    finally:
        common.cleanup_scratch()
    if "pair" in doc["program"]:
        print(json.dumps(r, indent=1))
        if r["violations"]:
            print("VIOLATION-REPLAYED", r["violations"])
            return 1
        return 0
    print(json.dumps({"program": r["program"], "rc": r["rc"], "stderr": r["stderr"], "final": r["final"],
                      "redo_mutations_of_target": r["redo_mutations_of_target"],
                      "target_states_run_length": _rle(r["observations"]), "violations": r["violations"]}, indent=1))
    if r["violations"]:
        print("VIOLATION-REPLAYED", r["violations"])
        return 1
    return 0
