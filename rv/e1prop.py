"""Glue for properties decided by the E1 history explorer."""
import json
import time
from collections import Counter

from . import common, e1


def cur_values(world, h):
    cur = {s: (None if s in world.absent else a[0]) for s, a in world.sources.items()}
    exist_t = {}
    for op in h:
        if op[0] in ("edit", "create", "uwrite", "ureplace") and op[1] in cur:
            cur[op[1]] = op[2]
        if op[0] == "rm" and op[1] in cur:
            cur[op[1]] = None
    return cur


def kill_ops(world, h, max_kills=1):
    """Interrupted builds: redo-ifchange of the world's first request, killed (whole tree) when a target's script reaches
    a position -- every target x every position of its current script (start, after each dependency group, after the
    output).  A kill is a deviation: histories contain at most `max_kills` of them."""
    if sum(1 for op in h if op[0] == "kbuild") >= max_kills:
        return []
    from .refmodel import Model, candidates
    from .worlds import DOFILES_ABSENT
    var = {df: (None if df in DOFILES_ABSENT.get(world.name, []) else 0) for df in world.rules}
    for op in h:
        if op[0] == "dovar":
            var[op[1]] = op[2]
        elif op[0] == "dorm":
            var[op[1]] = None
    m = Model(world, [df for df, k in var.items() if k is None])
    ops = []
    req = world.requests[0]
    for t in world.targets:
        spec = None
        for df, arg2 in candidates(t):
            if var.get(df) is not None:
                spec = world.rules[df][var[df]].subst(arg2)
                break
        if spec is None:
            continue
        n = len(m.script_deps(t, spec))
        for pos in list(range(n + 1)) + ["e"]:
            ops.append(["kbuild", [req], t, str(pos)])
    return ops


def std_alphabet(world, h, redo_targets=None, touch=True, rm_targets=True, dovar=True, ifchange_targets=None,
                 keep_going=False, rm_sources=(), kills=0):
    ops = []
    for t in (ifchange_targets or world.requests):
        ops.append(["ifchange", [t]])
    for t in (redo_targets if redo_targets is not None else world.requests[-1:]):
        ops.append(["redo", [t]])
    cur = cur_values(world, h)
    for s, alpha in world.sources.items():
        for v in alpha:
            if v != cur[s]:
                ops.append(["edit", s, v])
        if touch and cur[s] is not None:
            ops.append(["touch", s])
    for sname in rm_sources:
        if cur.get(sname) is not None:
            ops.append(["rm", sname])
    if rm_targets:
        for t in world.targets:
            ops.append(["rm", t])
    if dovar:
        from .worlds import DOFILES_ABSENT
        for df, vs in world.rules.items():
            if len(vs) > 1:
                for k in range(len(vs)):
                    ops.append(["dovar", df, k])
        for df in DOFILES_ABSENT.get(world.name, []):
            ops.append(["dovar", df, 0])     # create a higher-priority script
            ops.append(["dorm", df])         # remove it again
    if kills:
        ops += kill_ops(world, h, kills)
    return ops


def run_property(pid, tier, plan, check_mod, level="model_checking", rule="", assumptions=(), budget_s=None,
                 extra_coverage=None, explore_opts=None, post=None, check_names=None):
    """plan: list of (world, alphabet_fn, depth). Runs BFS for each, aggregates, writes evidence, prints verdict."""
    t0 = time.time()
    bindir = common.build_subject()
    verdict = common.Verdict(pid)
    ex = e1.Explorer(bindir, workers=common.NCPU)
    tot = Counter()
    stats = Counter()
    samples = []
    per_world = {}
    capped = []
    try:
        for entry in plan:
            world, alphabet, depth = entry[:3]
            seed_depth = entry[3] if len(entry) > 3 else None
            left = None
            if budget_s:
                left = max(5.0, budget_s - (time.time() - t0))
            cname = (check_names or {}).get(world.name, "step_check")
            if isinstance(alphabet, list):   # an explicit list of histories instead of an alphabet
                r = ex.run_histories(world, alphabet, check_mod, check_name=cname, opts=explore_opts or {},
                                     twice=min(8, len(alphabet)))
            else:
                o = dict(explore_opts or {})
                o["shadow_min_len"] = depth   # (C17) a deepest history's shadow replay covers all its prefixes
                r = ex.explore(world, alphabet, depth, check_mod, check_name=cname, budget_s=left, opts=o, seed_depth=seed_depth)
            tot["states"] += r["states"]
            tot["transitions"] += r["transitions"]
            tot["histories"] += r["histories"]
            tot["outcomes"] += r["outcomes"]
            per_world[world.name] = {"depth": r["depth_done"], "states": r["states"], "histories": r["histories"],
                                     "outcomes": r["outcomes"], "capped": r["capped"]}
            if r["capped"]:
                capped.append(world.name + (" (stopped: %s)" % r["stopped_early"] if r.get("stopped_early") else ""))
            for history, i, sig, detail, summ in r["violations"]:
                if sig.get("kind") == "__stat__":
                    stats[sig["name"]] += sig.get("n", 1)
                    continue
                doc = {"engine": "E1", "world": world.name, "history": history, "step": i, "detail": detail,
                       "steps": summ}
                verdict.report(sig, doc)
            for s in r["samples"][:1]:
                samples.append({"world": world.name, "history": [x["op"] for x in s],
                                "observed": [{"rc": x["rc"], "ran": x["ran"], "listing": x["listing"]} for x in s]})
            if r.get("stopped_early"):
                break    # the subject hangs: the violations found so far are reported, the rest of the plan is not run
    finally:
        ex.close()
        common.cleanup_scratch()
    if post:
        post(stats, verdict)
    cov = {
        "states": tot["states"], "transitions": tot["transitions"],
        "traces_validated_against_impl": tot["histories"],
        "samples": samples[:6] or [{"note": "no build command executed a script in the explored histories"}],
        "exhaustive": not capped,
        "rule": rule,
        "distinct_observed_outcomes": tot["outcomes"],
        "worlds": per_world,
        "caps_hit": capped,
        "oracle_counters": dict(stats),
        "evaluations": tot["histories"],
        "distinct_nontrivial": tot["states"],
    }
    if extra_coverage:
        cov.update(extra_coverage)
    rc = verdict.finish()
    common.write_evidence(pid, tier, level, cov, time.time() - t0, verdict.count, list(assumptions))
    print(f"[{pid}] tier={tier} states={tot['states']} transitions={tot['transitions']} histories={tot['histories']} "
          f"outcomes={tot['outcomes']} capped={capped} wall={time.time()-t0:.1f}s")
    return rc


def stat(name, n=1):
    return ({"kind": "__stat__", "name": name, "n": n}, {})
