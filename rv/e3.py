"""E3 -- crash-point enumerator at the libc boundary (driver for shim/crashshim.so).

A *crash point* is (logical process P, k): the instant immediately before the
k-th counted (state-changing) libc call of redo process P.  The shim names
processes by a logical id that is stable across runs at -j1 (see crashshim.c):
  exec'ed image  "<argv0>,<arg>...#<n>"   n-th image with that argv, by start order
  fork child     "<parent lid>/f<m>"      m-th fork of its parent
The counted-call counter belongs to the lid (fresh at exec, reset at fork).

Flow used by the properties:
  count run (twice; the normalised call sequences must agree, otherwise
  MachineryError) -> list of crash points -> one crash run per point (+ scope)
  in a fresh scratch project -> let survivors end -> recovery + oracles.
"""
import os
import re
import signal
import socket
import subprocess
import threading
import time
from pathlib import Path

from .common import VERIF, MachineryError

SHIM_DIR = VERIF / "shim"
SHIM = SHIM_DIR / "crashshim.so"

DBISH = ("db", "db-wal", "db-shm", "db-journal")


def ensure_shim() -> Path:
    src = SHIM_DIR / "crashshim.c"
    if not SHIM.exists() or SHIM.stat().st_mtime < src.stat().st_mtime:
        p = subprocess.run(["make", "-C", str(SHIM_DIR), "-s"], stdout=subprocess.PIPE, stderr=subprocess.STDOUT, text=True)
        if p.returncode != 0 or not SHIM.exists():
            raise MachineryError("building shim/crashshim.so failed: " + p.stdout[-1000:])
    return SHIM


def shim_env(env, root: Path, tag: str, kill=None, observe=None):
    """env + the shim; returns (env, logpath, procspath)."""
    e = dict(env)
    log = Path(root) / f"shim.{tag}.log"
    procs = Path(root) / f"shim.{tag}.procs"
    for f in (log, procs):
        if f.exists():
            f.unlink()
    e["LD_PRELOAD"] = str(SHIM)
    e["RVSHIM_LOG"] = str(log)
    e["RVSHIM_PROCS"] = str(procs)
    if kill:
        lid, k, scope = kill
        e["RVSHIM_KILL"] = f"{lid}:{k}:{scope}"
    if observe:
        e["RVSHIM_OBSERVE"] = str(observe)
    return e, log, procs


# ---------------------------------------------------------------------------
# running one invocation as its own session and waiting for *all* of it

def session_members(sid: int):
    """pids of live (non-zombie) processes whose session id is sid"""
    out = []
    for d in os.listdir("/proc"):
        if not d.isdigit():
            continue
        try:
            with open(f"/proc/{d}/stat", "rb") as f:
                s = f.read().decode("ascii", "replace")
        except OSError:
            continue
        rest = s[s.rfind(")") + 2:].split(" ")
        # rest: state ppid pgrp session ...
        if len(rest) > 3 and rest[0] != "Z" and rest[3] == str(sid):
            out.append(int(d))
    return out


def run_session(argv, cwd, env, root: Path, tag: str, timeout=30.0, survivors_timeout=15.0):
    """Run argv in a new session; wait for the leader, then until no process of the session is left.
    stdout/stderr are pipes (writes to them are not state changes and must not count as crash points),
    drained by threads because survivors may keep them open after the leader died.  Returns a dict."""
    t0 = time.time()
    p = subprocess.Popen(argv, cwd=str(cwd), env=env, stdin=subprocess.DEVNULL, stdout=subprocess.PIPE,
                         stderr=subprocess.PIPE, start_new_session=True)
    bufs = {"out": [], "err": []}

    def drain(f, key):
        try:
            while True:
                d = f.read1(65536)
                if not d:
                    break
                bufs[key].append(d)
        except (OSError, ValueError):
            pass
    ths = [threading.Thread(target=drain, args=(p.stdout, "out"), daemon=True),
           threading.Thread(target=drain, args=(p.stderr, "err"), daemon=True)]
    for t in ths:
        t.start()
    sid = p.pid
    watchdog = False
    try:
        rc = p.wait(timeout=timeout)
    except subprocess.TimeoutExpired:
        watchdog = True
        try:
            os.killpg(sid, signal.SIGKILL)
        except ProcessLookupError:
            pass
        rc = p.wait()
    t_leader = time.time() - t0
    survivors_hung = False
    had_survivors = False
    deadline = time.time() + survivors_timeout
    delay = 0.002
    while True:
        m = session_members(sid)
        if not m:
            break
        had_survivors = True
        if time.time() > deadline:
            survivors_hung = True
            for pid in m:
                try:
                    os.kill(pid, signal.SIGKILL)
                except ProcessLookupError:
                    pass
            deadline = time.time() + 5
        time.sleep(delay)
        delay = min(delay * 2, 0.05)
    for t in ths:
        t.join(timeout=5)
    p.stdout.close()
    p.stderr.close()
    return {"rc": rc, "watchdog": watchdog, "out": b"".join(bufs["out"]).decode("utf-8", "replace"),
            "err": b"".join(bufs["err"]).decode("utf-8", "replace"), "had_survivors": had_survivors,
            "survivors_hung": survivors_hung, "t_leader": round(t_leader, 3), "t_all": round(time.time() - t0, 3)}


# ---------------------------------------------------------------------------
# the shim log

class Call:
    __slots__ = ("pid", "ppid", "name", "idx", "call", "path", "path2", "lid", "redo", "size")

    def __init__(self, line):
        f = line.split(" ")
        if len(f) != 10:
            raise MachineryError("malformed shim log line: %r" % line)
        self.pid, self.ppid, self.name = int(f[0]), int(f[1]), f[2]
        self.idx = None if f[3] == "-" else int(f[3])
        self.call, self.path, self.path2, self.lid = f[4], f[5], (None if f[6] == "-" else f[6]), f[7]
        self.redo = f[8] == "R"
        self.size = int(f[9])

    def as_list(self):
        return [self.lid, self.idx, self.call, self.path, self.path2]


def parse_log(path: Path):
    if not Path(path).exists():
        return []
    return [Call(l) for l in Path(path).read_text(errors="replace").split("\n") if l]


def parse_procs(path: Path):
    out = []
    if not Path(path).exists():
        return out
    for l in Path(path).read_text(errors="replace").split("\n"):
        f = l.split(" ")
        if len(f) >= 5:
            out.append({"pid": int(f[0]), "ppid": int(f[1]), "kind": f[2], "lid": f[3], "exe": f[4], "argv": f[5:]})
    return out


_NORMS = [
    (re.compile(r"redo\.[A-Za-z0-9_]+\.log\.tmp"), "redo.X.log.tmp"),
    (re.compile(r"\.tmp[A-Za-z0-9_]{5,8}\b"), ".tmpX"),
    (re.compile(r"redo-[A-Za-z0-9_]{4,12}\b"), "redo-X"),
    (re.compile(r"#\d+\?\(deleted\)"), "#N(deleted)"),
    (re.compile(r"etilqs_[A-Za-z0-9]+"), "etilqs_X"),
    (re.compile(r"-mj[0-9A-Fa-f]+"), "-mjX"),
]


def norm_path(p, root):
    """path with the scratch root, temp-file random parts and sqlite temp names abstracted"""
    if p is None:
        return None
    root = str(root)
    if p.startswith(root):
        p = "$R" + p[len(root):]
    for rx, rep in _NORMS:
        p = rx.sub(rep, p)
    return p


def norm_call(c):
    return c.replace("64", "")


def path_class(p, root, targets=(), sources=()):
    """coarse, world-independent class of a path"""
    if p is None:
        return None
    n = norm_path(p, root)
    base = n.rsplit("/", 1)[-1]
    if "/.redo/" in n or n.endswith("/.redo"):
        if base == ".redo":
            return "redo-dir"
        if base == "db.sqlite3":
            return "db"
        if base.startswith("db.sqlite3-"):
            return "db-" + base[len("db.sqlite3-"):]
        if base == "locks":
            return "locks"
        if base.endswith(".log.tmp"):
            return "logtmp"
        if base.startswith("log") or "/log" in n:
            return "log"
        return "redo-other"
    if base.endswith(_tmpsfx()):
        return "tmp"
    if "(deleted)" in base or n.startswith("$R/home"):
        return "stdout-tmp"
    if base.endswith(".do"):
        return "dofile"
    if base in targets:
        return "target"
    if base in sources:
        return "source"
    if n == "$R/trace":
        return "trace"
    return "other"


def redo_sequences(calls, root):
    """{lid: [(call, normalised path, normalised path2)]} of the counted calls, all processes"""
    seqs = {}
    for c in calls:
        if c.idx is None or c.call == "KILL":
            continue
        s = seqs.setdefault(c.lid, [])
        if c.idx != len(s) + 1:
            raise MachineryError(f"shim log: call index gap in {c.lid}: {c.idx} after {len(s)}")
        s.append((norm_call(c.call), norm_path(c.path, root), norm_path(c.path2, root)))
    return seqs


def compare_counts(calls_a, root_a, calls_b, root_b):
    """Two count runs must agree per logical process after normalisation."""
    a, b = redo_sequences(calls_a, root_a), redo_sequences(calls_b, root_b)
    if a != b:
        diffs = []
        for lid in sorted(set(a) | set(b)):
            if a.get(lid) != b.get(lid):
                sa, sb = a.get(lid, []), b.get(lid, [])
                i = 0
                while i < min(len(sa), len(sb)) and sa[i] == sb[i]:
                    i += 1
                diffs.append(f"{lid}: len {len(sa)} vs {len(sb)}, first difference at call {i+1}: "
                             f"{sa[i] if i < len(sa) else None} vs {sb[i] if i < len(sb) else None}")
        raise MachineryError("count runs disagree (the build is not deterministic at the libc boundary): "
                             + "; ".join(diffs[:4]))
    return a


# ---------------------------------------------------------------------------
# crash points and their windows

def crash_points(calls, root, targets=(), sources=()):
    """All (lid, k) of redo processes with a stable classification.
    Returns list of dicts: lid, k, n (calls of that process), call, path_class, window, role."""
    per = {}
    order = []
    for c in calls:
        if c.idx is None or not c.redo or c.call == "KILL":
            continue
        if c.lid not in per:
            per[c.lid] = []
            order.append(c.lid)
        pc = path_class(c.path, root, targets, sources)
        pc2 = path_class(c.path2, root, targets, sources)
        per[c.lid].append((norm_call(c.call), pc, pc2))
    out = []
    for lid in order:
        seq = per[lid]
        n = len(seq)

        def label(i):
            call, pc, pc2 = seq[i]
            return f"{call}({pc}->{pc2})" if pc2 else f"{call}({pc})"
        # commit ends: for every rename(tmp->target) at r, the first maximal run of wal writes after r
        commit_end = {}
        for r, (call, pc, pc2) in enumerate(seq):
            if call.startswith("rename") and pc == "tmp" and pc2 == "target":
                j = r + 1
                while j < n and not (seq[j][0] == "write" and seq[j][1] == "db-wal"):
                    if seq[j][1] not in DBISH:
                        break
                    j += 1
                e = j
                while e < n and seq[e][0] == "write" and seq[e][1] == "db-wal":
                    e += 1
                commit_end[r] = e - 1 if e > j else n - 1   # last wal write of that run (0-based)
        # database creation: unlink(db) (only issued when db.sqlite3 did not exist) then open(db) creates the file;
        # the schema is committed by the first maximal run of wal writes after that
        create_open = create_end = None
        for o in range(1, n):
            if seq[o][0] == "open" and seq[o][1] == "db" and seq[o - 1][0] == "unlink" and seq[o - 1][1] == "db":
                j = o + 1
                while j < n and not (seq[j][0] == "write" and seq[j][1] == "db-wal"):
                    j += 1
                e = j
                while e < n and seq[e][0] == "write" and seq[e][1] == "db-wal":
                    e += 1
                create_open, create_end = o, (e - 1 if e > j else n - 1)
                break
        for k in range(1, n + 1):
            i = k - 1
            prev = None
            for j in range(i - 1, -1, -1):
                if seq[j][1] not in DBISH:
                    prev = j
                    break
            nxt = None
            for j in range(i, n):
                if seq[j][1] not in DBISH:
                    nxt = j
                    break
            a = "start" if prev is None else label(prev)
            b = "exit" if nxt is None else label(nxt)
            if create_open is not None and create_open < i <= create_end:
                window = "after create(db) before schema commit"
            elif prev is not None and prev in commit_end:
                if i <= commit_end[prev]:
                    window = "after rename(tmp->target) before commit"
                else:
                    window = f"after rename(tmp->target)+commit before {b}"
            else:
                window = f"after {a} before {b}"
            out.append({"lid": lid, "k": k, "n": n, "call": seq[i][0], "path_class": seq[i][1], "window": window,
                        "role": role_of(lid)})
    return out


def role_of(lid):
    """world-independent role of a process: command name + whether it is a not-yet-exec'ed fork child"""
    name = lid.split(",", 1)[0].split("#", 1)[0]
    return name + ("/fork" if "/f" in lid.rsplit("#", 1)[-1] else "")


# ---------------------------------------------------------------------------
# post-crash checks that need no model

def held_locks(lockfile: Path, upto=1000):
    """F_GETLK sweep over bytes 0..upto of .redo/locks: list of (start, len, pid) still locked."""
    import fcntl
    import struct
    out = []
    if not lockfile.exists():
        return out
    fd = os.open(str(lockfile), os.O_RDWR)
    try:
        start = 0
        while start <= upto:
            req = struct.pack("hhqqixxxx", fcntl.F_WRLCK, os.SEEK_SET, start, upto + 1 - start, 0)
            res = fcntl.fcntl(fd, fcntl.F_GETLK, req)
            l_type, _wh, l_start, l_len, l_pid = struct.unpack("hhqqixxxx", res)
            if l_type == fcntl.F_UNLCK:
                break
            out.append((l_start, l_len, l_pid))
            start = l_start + (l_len if l_len > 0 else upto + 1)
    finally:
        os.close(fd)
    return out


def _tmpsfx():
    from . import common
    return common.tmp_suffix()


def leftover_tmps(projdir: Path):
    return sorted(str(p.relative_to(projdir)) for p in projdir.rglob("*" + _tmpsfx()) if ".redo/" not in str(p))


# ---------------------------------------------------------------------------
# observe mode: a Unix-socket server that is called back before every counted call

class Observer:
    """with Observer(path, callback) as ob: ...run the command...  callback(msg dict) runs while the
    calling redo process is blocked, i.e. exactly at a syscall boundary of the subject."""

    def __init__(self, sockpath: Path, callback):
        self.path = str(sockpath)
        self.cb = callback
        self.n = 0
        self.errors = []
        self._stop = False

    def __enter__(self):
        if os.path.exists(self.path):
            os.unlink(self.path)
        self.srv = socket.socket(socket.AF_UNIX, socket.SOCK_STREAM)
        self.srv.bind(self.path)
        self.srv.listen(64)
        self.srv.settimeout(0.05)
        self.th = threading.Thread(target=self._loop, daemon=True)
        self.th.start()
        return self

    def _loop(self):
        while not self._stop:
            try:
                conn, _ = self.srv.accept()
            except socket.timeout:
                continue
            except OSError:
                break
            try:
                conn.settimeout(5)
                buf = b""
                while not buf.endswith(b"\n"):
                    d = conn.recv(4096)
                    if not d:
                        break
                    buf += d
                f = buf.decode("utf-8", "replace").rstrip("\n").split(" ")
                if len(f) >= 6:
                    msg = {"pid": int(f[0]), "lid": f[1], "idx": int(f[2]), "call": norm_call(f[3]), "path": f[4],
                           "path2": None if f[5] == "-" else f[5]}
                    self.n += 1
                    try:
                        self.cb(msg)
                    except Exception as e:  # the callback is harness code: surface, never swallow
                        self.errors.append(repr(e))
                else:
                    self.errors.append("malformed observe message %r" % buf)
                conn.sendall(b"k")
            except OSError as e:
                self.errors.append("observe connection: %r" % e)
            finally:
                conn.close()

    def __exit__(self, *a):
        self._stop = True
        self.th.join(timeout=5)
        self.srv.close()
        try:
            os.unlink(self.path)
        except OSError:
            pass
        if self.errors:
            raise MachineryError("observer: " + "; ".join(self.errors[:3]))


# ---------------------------------------------------------------------------
# self-test of the shim against strace (development aid; needs /usr/bin/strace)

def selftest(world_name="chain"):
    """Every state-changing *system call* strace sees in a redo process must have been announced by the
    shim (same pid, same kind, same order) -- i.e. the wrapped libc entry points are complete for this binary."""
    import shutil
    from . import common, worlds
    from .e1 import Project
    ensure_shim()
    bindir = common.build_subject()
    root = common.scratch_root() / "selftest"
    if root.exists():
        shutil.rmtree(root)
    root.mkdir(parents=True)
    proj = Project(worlds.curated()[world_name], bindir, root)
    env, log, procs = shim_env(proj.env, root, "st")
    st = root / "strace.out"
    trace = ("rename,renameat,renameat2,unlink,unlinkat,rmdir,link,linkat,symlink,symlinkat,mkdir,mkdirat,open,openat,"
             "creat,write,pwrite64,writev,pwritev,pwritev2,ftruncate,truncate,copy_file_range,sendfile,splice,execve")
    r = run_session(["strace", "-f", "-y", "-o", str(st), "-e", "trace=" + trace, "redo-ifchange", "top"], proj.p, env,
                    root, "st", timeout=120)
    if r["rc"] != 0:
        raise MachineryError("selftest build failed: " + r["err"][-500:])
    calls = parse_log(log)
    redo_pids = {c.pid for c in calls if c.redo} | {p["pid"] for p in parse_procs(procs) if p["exe"].startswith("redo")}
    shim_by_pid = {}
    for c in calls:
        if c.redo and c.idx is not None:
            shim_by_pid.setdefault(c.pid, []).append(norm_call(c.call))
    fam = {"open": "open", "openat": "open", "creat": "open", "write": "write", "pwrite": "write", "writev": "write",
           "pwritev": "write", "copy_file_range": "write", "sendfile": "write", "splice": "write",
           "ftruncate": "trunc", "truncate": "trunc", "rename": "rename", "renameat": "rename", "renameat2": "rename",
           "unlink": "unlink", "unlinkat": "unlink", "rmdir": "unlink", "mkdir": "mkdir", "mkdirat": "mkdir",
           "link": "link", "linkat": "link", "symlink": "link", "symlinkat": "link"}
    sys_by_pid = {}
    rx = re.compile(r"^(\d+)\s+(\w+)\((.*)$")
    rx_res = re.compile(r"^(\d+)\s+<\.\.\. (\w+) resumed>(.*)$")
    pending_exec = {}
    shimfiles = (str(log), str(procs))
    for line in st.read_text(errors="replace").split("\n"):
        m = rx_res.match(line)
        if m and m.group(2) == "execve" and m.group(3).rstrip().endswith("= 0") and int(m.group(1)) in pending_exec:
            pid = int(m.group(1))
            exe = pending_exec.pop(pid)
            (redo_pids.add if os.path.basename(os.path.realpath(exe)).startswith("redo") else redo_pids.discard)(pid)
            continue
        m = rx.match(line)
        if not m:
            continue
        pid, name, rest = int(m.group(1)), m.group(2).replace("64", ""), m.group(3)
        if name == "execve":
            # the same pid is a redo process before exec'ing a script interpreter and something else after
            exe = rest.split('"')[1] if '"' in rest else ""
            if rest.rstrip().endswith("<unfinished ...>"):
                pending_exec[pid] = exe
            elif rest.rstrip().endswith("= 0"):
                (redo_pids.add if os.path.basename(os.path.realpath(exe)).startswith("redo") else redo_pids.discard)(pid)
            continue
        if pid not in redo_pids or name not in fam:
            continue
        if any(s in rest for s in shimfiles):
            continue
        if fam[name] == "open":
            if not re.search(r"O_WRONLY|O_RDWR|O_CREAT|O_TRUNC", rest):
                continue
            if re.search(r'"/(dev|proc|sys)/(?!shm/)', rest):
                continue
        if fam[name] == "write":
            # regular files only: -y prints fd<path>; pipes/sockets print as <pipe:[..]>/<socket:[..]>/<UNIX...>
            fdm = re.match(r"(\d+)<([^>]*)>", rest) if name in ("write", "pwrite", "writev", "pwritev") else \
                re.search(r", (\d+)<([^>]*)>", rest)
            tgt = fdm.group(2) if fdm else ""
            if not tgt.startswith("/") or tgt.startswith("/dev/pts") or tgt.startswith("/dev/null"):
                continue
        sys_by_pid.setdefault(pid, []).append(fam[name])
    bad = []
    for pid in sorted(set(sys_by_pid) | set(shim_by_pid)):
        a = sys_by_pid.get(pid, [])
        b = [fam[x] for x in shim_by_pid.get(pid, [])]
        if a != b:
            bad.append((pid, len(a), len(b)))
    n = sum(len(v) for v in sys_by_pid.values())
    shutil.rmtree(root, ignore_errors=True)
    return {"world": world_name, "redo_pids": len(redo_pids), "state_changing_syscalls": n,
            "announced_by_shim": sum(len(v) for v in shim_by_pid.values()), "mismatching_pids": bad}


if __name__ == "__main__":
    import json
    import sys
    from . import common
    res = [selftest(w) for w in (sys.argv[1:] or ["chain", "csum-mid", "default"])]
    common.cleanup_scratch()
    print(json.dumps(res, indent=1))
    sys.exit(1 if any(r["mismatching_pids"] for r in res) else 0)
