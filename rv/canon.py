"""Canonical key of a project state (files + redo database), see DESIGN.md appendix C."""
import os
import sqlite3
from pathlib import Path


def stamp_of(path: Path):
    """Recompute redo's stamp string for a path (mirrors the *format*, used only for equality classes)."""
    try:
        st = os.lstat(path)
    except FileNotFoundError:
        return "0"
    import stat as S
    if S.S_ISDIR(st.st_mode):
        return "dir"
    s = "%.6f-%d-%d-%d-%d-%d" % (st.st_mtime_ns / 1e9, st.st_size, st.st_ino, st.st_mode, st.st_uid, st.st_gid)
    if S.S_ISLNK(st.st_mode):
        try:
            st2 = os.stat(path)
            if S.S_ISDIR(st2.st_mode):
                s2 = "dir"
            else:
                s2 = "%.6f-%d-%d-%d-%d-%d" % (st2.st_mtime_ns / 1e9, st2.st_size, st2.st_ino, st2.st_mode, st2.st_uid, st2.st_gid)
        except FileNotFoundError:
            s2 = "0"
        s += "+" + s2
    return s


def read_db(proj: Path):
    """Returns (files rows, deps rows) with names, or (None, None) if there is no database."""
    db = proj / ".redo" / "db.sqlite3"
    if not db.exists():
        return None, None
    con = sqlite3.connect(f"file:{db}?mode=ro", uri=True, timeout=10)
    try:
        files = con.execute("select rowid, name, is_generated, is_override, checked_runid, changed_runid, "
                            "failed_runid, stamp, csum from Files").fetchall()
        deps = con.execute("select target, source, mode, delete_me from Deps").fetchall()
    finally:
        con.close()
    return files, deps


def stamp_class(proj: Path, name: str, stamp):
    if stamp is None:
        return "null"
    if stamp == "0":
        return "0"
    if stamp == "dir":
        return "dir"
    if name.startswith("//"):
        return "special"
    cur = stamp_of(proj / name)
    # f64 formatting of mtime can differ in the last digit between implementations:
    # compare all fields but allow the printed mtime to differ by <= 2 microseconds.
    if cur == stamp:
        return "cur"
    try:
        a = stamp.split("+")[0].split("-")
        b = cur.split("+")[0].split("-")
        if a[1:] == b[1:] and abs(float(a[0]) - float(b[0])) < 3e-6 and stamp.count("+") == cur.count("+"):
            return "cur"
    except Exception:
        pass
    return "other"


def db_key(proj: Path, ignore_names=()):
    files, deps = read_db(proj)
    if files is None:
        return ((), ())   # no database yet == a database that knows no file
    # the //ALWAYS row is created with the database; while pristine it carries no information
    files = [r for r in files if not (r[1] == "//ALWAYS" and all(v is None for v in r[2:]))]
    runids = set()
    for r in files:
        for v in r[4:7]:
            if v is not None and v != 0:
                runids.add(v)
    rank = {v: i + 1 for i, v in enumerate(sorted(runids))}

    def rk(v):
        if v is None:
            return None
        if v == 0:
            return 0
        return rank[v]
    id2name = {r[0]: r[1] for r in files}
    rows = []
    for r in files:
        name = r[1]
        if name in ignore_names:
            continue
        rows.append((name, bool(r[2]), bool(r[3]), rk(r[4]), rk(r[5]), rk(r[6]),
                     stamp_class(proj, name, r[7]), r[8] or ""))
    drows = sorted((id2name.get(t, "?%s" % t), id2name.get(s, "?%s" % s), m, bool(d)) for t, s, m, d in deps)
    return (tuple(sorted(rows)), tuple(drows))


def db_key_norun(proj: Path):
    """Like db_key but with run-id ranks replaced by null/0/set (for comparing states reached by
    different numbers of runs, e.g. serial vs parallel)."""
    files, deps = read_db(proj)
    if files is None:
        return ("nodb",)
    id2name = {r[0]: r[1] for r in files}
    rows = []
    for r in files:
        def c(v):
            return None if v is None else (0 if v == 0 else 1)
        rows.append((r[1], bool(r[2]), bool(r[3]), c(r[4]), c(r[5]), c(r[6]), stamp_class(proj, r[1], r[7]), r[8] or ""))
    drows = sorted((id2name.get(t, "?"), id2name.get(s, "?"), m, bool(d)) for t, s, m, d in deps)
    return (tuple(sorted(rows)), tuple(drows))
