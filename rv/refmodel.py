"""Reference model: from-scratch evaluation and "what should run" (RefBuild).

Deliberately boring. Knows nothing about run ids, stamps, SQLite or locks. It
tracks, per file, a *version* (bumped whenever the file's identity changes:
user edit/touch/create/remove, or a build that produced a new outcome) and, per
built target, the versions of the dependencies it saw at its last successful
build.  From those it derives which scripts a build command must execute.

Flat (single-directory) worlds only; sub-directory rule search is handled by
the C13 reference in props/C13.py.
"""
import hashlib
from typing import Dict, List, Optional

from .worlds import Spec, World

FAIL = "<FAIL>"
ALWAYS = "//ALWAYS"


class Killed(Exception):
    """the simulated command is SIGKILLed (whole tree) at a kill point inside a script"""


def candidates_full(name: str) -> List[tuple]:
    """Candidate .do files for a project-relative target name, highest priority first:
    (do file, directory of the do file, $1, $2) -- all but $1/$2 relative to the project root, $1/$2 relative to the do file's
    directory.  `<name>.do` beside the target; then in the target's directory and in every directory above it (up to the
    project root; what lies above the project is never created by the harness) `default.<ext>.do` from the longest extension to the
    shortest and `default.do`."""
    import posixpath
    d, base = posixpath.split(name)
    out = [(posixpath.join(d, base + ".do"), d, base, base)]
    parts = base.split(".")
    dirs = [d]
    while dirs[-1]:
        dirs.append(posixpath.dirname(dirs[-1]))
    for dd in dirs:
        rel = name[len(dd) + 1:] if dd else name
        reldir = posixpath.dirname(rel)
        # default.<ext>.do from the longest extension to the shortest, then default.do
        for i in range(1, len(parts)):
            ext = ".".join(parts[i:])
            b = ".".join(parts[:i])
            if b == "":
                continue  # a leading dot is part of the name, not an extension separator
            out.append((posixpath.join(dd, f"default.{ext}.do"), dd, rel, posixpath.join(reldir, b)))
        out.append((posixpath.join(dd, "default.do"), dd, rel, rel))
    return out


def candidates(name: str) -> List[tuple]:
    """(dofile, arg2) pairs of candidates_full"""
    return [(df, a2) for df, _dd, _a1, a2 in candidates_full(name)]


class Model:
    def __init__(self, world: World, dofiles_absent=()):
        self.w = world
        self.content: Dict[str, Optional[str]] = {}   # believed content of every path (None = absent)
        self.owner: Dict[str, str] = {}               # 'user' | 'redo'
        self.ver: Dict[str, int] = {}
        self.variant: Dict[str, Optional[int]] = {}   # do-file -> current variant (None = absent)
        self.built: Dict[str, bool] = {}
        self.failed: Dict[str, bool] = {}
        self.seen: Dict[str, Dict[str, tuple]] = {}   # target -> {dep: (mode, version-or-None)}
        self.digest: Dict[str, str] = {}              # csum targets: digest at last build
        self.kind_at_build: Dict[str, str] = {}
        self.override: Dict[str, bool] = {}           # generated file since edited/replaced by the user
        self.known: set = set()                       # names redo has a Files row for (model's belief)
        self.interrupted: set = set()                 # targets whose script was running when the whole tree was killed
        self.ver_at_build: Dict[str, int] = {}        # version a target had right after its last successful build
        self.tolerated: set = set()                   # targets whose last build went on without a dependency that failed
        self.tolerate_now: set = set()                # (during a simulated build) targets whose dependency request has just failed
        self.noticed: set = set()                     # hand-edited generated files that a build command has looked at since
        for s, alpha in world.sources.items():
            if s in world.absent:
                self.content[s] = None
            else:
                self.content[s] = alpha[0]
                self.owner[s] = "user"
            self.ver[s] = 0
        for name, text in getattr(world, "symlinks", {}).items():
            # a user-made link to a source that exists: a user-owned file with that source's content
            if text in world.sources and text not in world.absent and name not in world.sources:
                self.content[name] = world.sources[text][0]
                self.owner[name] = "user"
                self.ver[name] = 0
        # user-made links to directories of the project: a name that goes through one is the name of the file behind it
        paths = list(world.rules) + list(world.sources)
        self.dirlinks = {name: text for name, text in getattr(world, "symlinks", {}).items()
                         if any(q.startswith(text + "/") for q in paths)}
        for df in world.rules:
            self.variant[df] = None if df in dofiles_absent else 0
            self.ver[df] = 0
            if self.variant[df] is not None:
                self.owner[df] = "user"

    # -- files ---------------------------------------------------------------
    def exists(self, p):
        if p in self.variant:
            return self.variant[p] is not None
        return self.content.get(p) is not None

    def bump(self, p):
        self.ver[p] = self.ver.get(p, 0) + 1

    def user_write(self, p, v):
        """edit / create / replace a non-.do file by hand"""
        was_redo = self.owner.get(p) == "redo"
        self.content[p] = v
        if was_redo:
            self.override[p] = True
        self.owner[p] = "user" if not was_redo else "redo-overridden"
        self.bump(p)

    def user_touch(self, p):
        if self.exists(p):
            if self.owner.get(p) == "redo":
                self.override[p] = True
                self.owner[p] = "redo-overridden"
            self.bump(p)

    def user_rm(self, p):
        if not self.exists(p):
            return
        if p in self.variant:
            self.variant[p] = None
        else:
            self.content[p] = None
        was_target = self.owner.get(p) == "redo"
        self.owner.pop(p, None)
        self.override.pop(p, None)
        if not was_target:
            # removing a source is a change of that source; removing a redo-built target only makes
            # that target need a run (its dependents change if and when the rebuild changes it)
            self.bump(p)

    def set_variant(self, df, k):
        self.variant[df] = k
        self.owner[df] = "user"
        self.bump(df)

    def canon(self, name):
        """the name of the file behind `name`: leading components that are links to directories are resolved"""
        while len(name) > 1 and (name.endswith("/") or name.endswith("/.")):
            name = name[:-1] if name.endswith("/") else name[:-2]       # `redo sub/` asks for sub
        if not self.dirlinks:
            return name
        for _ in range(8):
            for link, text in self.dirlinks.items():
                if name == link or name.startswith(link + "/"):
                    import posixpath
                    name = posixpath.normpath(posixpath.join(posixpath.dirname(link), text) + name[len(link):])
                    break
            else:
                return name
        return name

    # -- rules ---------------------------------------------------------------
    def rule_for(self, name):
        """(dofile, spec) of the first existing candidate, or None."""
        name = self.canon(name)
        for df, dd, arg1, arg2 in candidates_full(name):
            if df in self.variant and self.variant[df] is not None:
                return df, self.w.rules[df][self.variant[df]].subst(arg2).rebase(dd, arg1, canon=self.canon if self.dirlinks else None)
        return None

    def absent_candidates(self, name):
        out = []
        for df, _ in candidates(name):
            if df in self.variant and self.variant[df] is not None:
                break
            out.append(df)
        return out

    def is_sourcelike(self, name):
        """exists and not produced by redo -> redo must treat it as a source, never run a rule for it"""
        return self.exists(name) and self.owner.get(name) in ("user", "redo-overridden")

    # -- from-scratch evaluation ----------------------------------------------
    def evaluate(self, name, _stack=(), shallow=False, _top=True):
        """Bytes a from-scratch build would give `name`, or FAIL.  With shallow=True the dependencies' *current*
        bytes are used instead of their from-scratch bytes (what an incremental build of `name` produces once its
        dependencies have been brought up to date)."""
        name = self.canon(name)
        if name in _stack:
            return FAIL
        if shallow and not _top:
            if name in self.variant:
                return None if self.variant[name] is None else "do:%s:%d" % (name, self.variant[name])
            return self.content.get(name) if self.exists(name) else FAIL
        if name in self.variant:
            return None if self.variant[name] is None else "do:%s:%d" % (name, self.variant[name])
        if self.is_sourcelike(name):
            return self.content[name]
        r = self.rule_for(name)
        if r is None:
            return self.content.get(name) if self.exists(name) else FAIL
        df, spec = r
        st = _stack + (name,)
        c = ""

        def dep(d):
            v = self.evaluate(d, st, shallow=shallow, _top=False)
            return v

        def text(v):
            return v.rstrip("\n")
        if spec.tolerant and spec.deps:
            vals = [dep(d) for d in spec.deps]
            if (shallow and _top and name in self.tolerate_now) or any(v is FAIL or v is None for v in vals):
                c += "!"          # the script goes on without them
            else:
                c += "".join(text(v) for v in vals)
        for d in (() if spec.tolerant else spec.deps):
            v = dep(d)
            if v is FAIL or v is None:
                return FAIL
            c += text(v)
        if spec.sel:
            sv = dep(spec.sel[0])
            if sv is FAIL or sv is None:
                return FAIL
            sv = text(sv)
            c += "[" + sv + "]"
            for v, ds in spec.sel[1]:
                if v == sv:
                    for d in ds:
                        x = dep(d)
                        if x is FAIL or x is None:
                            return FAIL
                        c += text(x)
                    break
        for wpath in spec.ifcreate:
            if self.exists(wpath) or self.rule_for(wpath):
                # the script tests existence on disk; a buildable-but-absent watch path counts as absent
                pass
            if self.exists(wpath):
                x = dep(wpath)
                if x is FAIL or x is None:
                    return FAIL
                c += text(x)
            else:
                c += "~"
        for wpath in spec.ifcreate_raw:
            if self.exists(wpath):
                return FAIL   # redo-ifcreate on an existing path is an error
            c += "~"
        if spec.fail:
            fv = dep(spec.fail)
            if fv is FAIL or fv is None:
                return FAIL
            if text(fv) == "1":
                return FAIL
        if spec.proj:
            c = c.replace("1", "0")
        return "%s(%s)\n" % (spec.arg1 or name, c)     # the script prints $1: the name as seen from the rule's directory

    def script_deps(self, name, spec: Spec):
        """Ordered groups of (mode, [names]) the current script requests, given current sources.
        Each group is one redo-ifchange/ifcreate invocation."""
        groups = []
        if spec.deps and spec.tolerant:
            groups.append(("mt", list(spec.deps)))
        elif spec.deps:
            if spec.split:
                for d in spec.deps:
                    groups.append(("m", [d]))
            else:
                groups.append(("m", list(spec.deps)))
        if spec.sel:
            groups.append(("m", [spec.sel[0]]))
            groups.append(("sel", spec.sel))
        for wpath in spec.ifcreate:
            groups.append(("w", [wpath]))
        for wpath in spec.ifcreate_raw:
            groups.append(("wraw", [wpath]))
        if spec.seq:
            groups.append(("seq", spec.seq))
        if spec.fail:
            if not spec.fail_undeclared:
                groups.append(("m", [spec.fail]))
            groups.append(("failcheck", spec.fail))
        if spec.post:
            groups.append(("m", list(spec.post)))   # requested after the output was written; no part of the content
        return groups


class RefBuild:
    """Simulates one top-level build command on a Model (mutating it) and reports
    which scripts must run.  `keep_going` mirrors -k."""

    def __init__(self, model: Model):
        self.m = model

    # ---- staleness (ideal semantics of C02) --------------------------------
    # Three-valued: NO (0), MAYBE (1), YES (2).  MAYBE marks the few situations where the
    # property's wording leaves the decision open (documented in DESIGN.md, C02 slack):
    # the simulation then follows what the implementation was observed to do, and either
    # choice is accepted.
    NO, MAYBE, YES = 0, 1, 2

    def needs_run(self, X, memo=None, stack=()):
        m = self.m
        if memo is None:
            memo = {}
        if X in memo:
            return memo[X]
        if X in stack:
            return self.YES
        if X in self.done:
            # already dealt with in this run: up to date if it succeeded; a target that failed in this
            # run cannot make anything above it up to date
            memo[X] = self.YES if self.done[X] == "fail" else self.NO
            return memo[X]
        r = self.NO
        if not m.built.get(X) or m.failed.get(X) or not m.exists(X):
            r = self.YES
        elif X in m.tolerated:
            r = self.YES       # built without a dependency that could not be had: out of date until it is rebuilt with it
        elif m.kind_at_build.get(X) == "always" and X not in self.done:
            r = self.YES
        else:
            for d, (mode, sv) in m.seen.get(X, {}).items():
                if mode == "c":
                    if m.exists(d):
                        r = self.YES
                        break
                    continue
                if m.ver.get(d, 0) != sv:
                    unseen_edits_only = (self.is_target(d) and m.kind_at_build.get(d) == "csum" and d in m.digest
                                         and d not in m.noticed and sv == m.ver_at_build.get(d))
                    if not unseen_edits_only:
                        r = self.YES
                        break
                    # X was built from d's last build; d was hand-edited since, but no build has looked at it, and it is
                    # redo's to rebuild again (the user removed their version): what matters is the checksum it gets
                if self.is_target(d):
                    r = max(r, self.will_change(d, memo, stack + (X,)))
                    if r == self.YES:
                        break
        if r == self.NO and X in m.interrupted:
            # slack S3: a target whose build was interrupted by a kill may be re-run by the next build even if
            # nothing it depends on changed (redo cannot know how far the script got); it MUST be re-run
            # whenever the rules above say so.
            r = self.MAYBE
        memo[X] = r
        return r

    def is_target(self, d):
        m = self.m
        if d in m.variant:
            return False
        if m.is_sourcelike(d):
            return False
        return m.rule_for(d) is not None or m.built.get(d, False)

    def will_change(self, d, memo, stack):
        """Will (re)building d change it from its dependents' point of view?"""
        m = self.m
        nr = self.needs_run(d, memo, stack)
        if nr == self.NO:
            return self.NO
        if not m.built.get(d):
            return self.YES
        csummed = m.kind_at_build.get(d) == "csum" and d in m.digest
        if m.failed.get(d) and not csummed:
            return self.YES
        if getattr(self, "assume_csum_changes", False):
            return nr
        if csummed:
            # a checksummed target that re-runs changes for its dependents only if the checksum differs -- also when
            # its last attempt failed: the recorded checksum is that of its last successful build, which is what the
            # dependents were built from
            v = m.evaluate(d)
            if v is FAIL:
                # its rebuild will fail, and with it every command that needs it: whether a dependent's script was
                # started before that is not the user's concern (slack, decided by the observation)
                return self.MAYBE
            r = m.rule_for(d)
            if r is None or r[1].kind != "csum":
                return self.YES
            if hashlib.sha1(v.encode()).hexdigest() != m.digest.get(d):
                return nr
            if not m.exists(d):
                # slack S1: the file of a checksummed dependency was removed and its rebuild gives the
                # same checksum -- dependents may or may not be re-run
                return self.MAYBE
            return self.NO
        return nr

    def how(self, X, memo):
        """'no' | 'def' | 'via': is X's need to run visible at first sight ('def'), or only after
        checksummed targets below it have been rebuilt ('via')?"""
        m = self.m
        if X in memo:
            return memo[X]
        memo[X] = "def"  # cycle guard
        r = "no"
        if X in self.done:
            r = "def" if self.done[X] == "fail" else "no"
        elif not m.built.get(X) or m.failed.get(X) or not m.exists(X) or m.kind_at_build.get(X) == "always":
            r = "def"
        else:
            for d, (mode, sv) in m.seen.get(X, {}).items():
                if mode == "c":
                    if m.exists(d):
                        r = "def"
                        break
                    continue
                if m.ver.get(d, 0) != sv:
                    r = "def"
                    break
                if self.is_target(d):
                    h = self.how(d, memo)
                    if h == "def":
                        if m.kind_at_build.get(d) == "csum" and d in m.digest:
                            r = "via"
                        else:
                            r = "def"
                            break
                    elif h == "via":
                        r = "via"
        memo[X] = r
        return r

    def stale_csums_in_closure(self, X, acc, memo, visited):
        """csum targets needing a run, reachable from X through recorded deps of targets that do not run."""
        m = self.m
        if X in visited:
            return
        visited.add(X)
        for d, (mode, sv) in m.seen.get(X, {}).items():
            if mode != "m" or not self.is_target(d):
                continue
            nr = self.needs_run(d, memo)
            if nr == self.MAYBE:
                nr = self.YES if d in self.observed else self.NO
                self.slack.append(d)
            if nr:
                if m.kind_at_build.get(d) == "csum":
                    if d not in acc:
                        acc.append(d)
                # a stale plain dep would have made X need a run; not reachable here
            else:
                self.stale_csums_in_closure(d, acc, memo, visited)

    # ---- simulation ---------------------------------------------------------
    def run(self, cmd, targets, keep_going=False, observed=(), kill=None):
        """cmd in {'ifchange','redo'}. `observed` = names the implementation was seen to execute; it is
        consulted only to resolve MAYBE decisions. `kill` = (target, position): the whole tree is killed when
        that target's script reaches that position (see worlds.script_text). Returns dict(ok, ran, ambiguous, slack)."""
        self.kill = tuple(kill) if kill else None
        self.killed = False
        self.observed = set(observed)
        self.slack = []
        self.seq_results = {}
        self.overbuilt = []
        self.no_oob = False
        self.done = {}          # name -> 'ok' | 'fail'
        self.ran = []           # scripts executed, in order
        self.ambiguous = False
        self.reasons = {}
        self.keep_going = keep_going
        ok = True
        try:
            ok = self.request_list(list(targets), forced=(cmd == "redo"))
        except Killed:
            ok = False
            self.killed = True
            for X, st in self.done.items():
                if st == "running":
                    self.m.interrupted.add(X)
        return {"ok": ok, "ran": list(self.ran), "ambiguous": self.ambiguous, "slack": list(self.slack),
                "overbuilt": list(self.overbuilt), "seq": dict(self.seq_results), "killed": self.killed}

    def kill_point(self, X, pos):
        if self.kill is not None and self.kill == (X, str(pos)):
            raise Killed()

    def request_list(self, names, forced=False, parent=None):
        """One redo / redo-ifchange invocation naming `names`, processed left to right."""
        ok = True
        names = [self.m.canon(d) for d in names]
        for i, d in enumerate(names):
            if d == parent or self.done.get(d) == "running":
                ok = False   # cyclic request
                if not self.keep_going:
                    break
                continue
            if not self.request(d, forced=forced):
                ok = False
                if not self.keep_going:
                    # (no slack here: at -j1 a job's failure is known by the time its token is back, and the
                    # token is what the next sibling needs in order to start -- "without --keep-going no new
                    # target is started after the first failure is known".  An earlier version of this model
                    # tolerated the sibling right behind the failing target having been started: slack S2,
                    # withdrawn -- see DESIGN.md 9.10, defect D33.)
                    break
        return ok

    def would_run(self, X):
        """Would a plain (unforced) request of X start X's script right now?"""
        m = self.m
        if X in self.done or X in m.variant or m.is_sourcelike(X) or m.rule_for(X) is None:
            return False
        return self.needs_run(X, {}) != self.NO

    def request(self, X, forced=False):
        m = self.m
        X = m.canon(X)
        if X in self.done:
            # `redo X` runs X's script whether or not X was already built (or failed) as a dependency
            # earlier in this run; everything else is built at most once per run
            refire = forced and self.done[X] in ("ok", "fail") and X not in m.variant \
                and not m.is_sourcelike(X) and m.rule_for(X) is not None
            if not refire:
                return self.done[X] == "ok"
            r = self.execute(X, m.rule_for(X))
            if not r:
                # X was fine earlier in this run and has now failed: whatever was built from it earlier in the
                # run can no longer be answered "already done"
                bad = {X}
                grew = True
                while grew:
                    grew = False
                    for T, seen in m.seen.items():
                        if T not in bad and self.done.get(T) == "ok" and any(d in bad for d in seen):
                            bad.add(T)
                            grew = True
                for T in bad - {X}:
                    self.done.pop(T, None)
            return r
        if X in m.variant:  # a .do file is always a plain source
            if not m.exists(X):
                self.done[X] = "fail"
                return False
            m.known.add(X)
            self.done[X] = "ok"
            return True
        if m.is_sourcelike(X):
            m.known.add(X)
            if m.override.get(X):
                m.noticed.add(X)      # redo has seen the user's version (and forgets the checksum of its own)
            self.done[X] = "ok"
            return True
        rule = m.rule_for(X)
        if rule is None:
            m.known.add(X)
            if m.exists(X):
                self.done[X] = "ok"
                return True
            # no rule to redo X
            self.done[X] = "fail"
            m.failed[X] = True
            return False
        memo = {}
        nr = self.YES if forced else self.needs_run(X, memo)
        if nr == self.MAYBE:
            nr = self.YES if X in self.observed else self.NO
            self.slack.append(X)
        if not nr:
            # X is clean, but checksummed targets below it that need a run are executed
            # (that is how redo finds out that X is clean)
            acc = []
            self.stale_csums_in_closure(X, acc, memo, set())
            if len(acc) > 1:
                self.ambiguous = True   # their relative order is unspecified (matters only on failure)
            if acc:
                # Known limitation of the out-of-band protocol (DESIGN.md, finding F-C02-nested-csum):
                # when the need to re-run one of those targets only shows after another checksummed
                # target below it has been rebuilt -- or when X is itself examined inside such an
                # out-of-band phase -- redo runs X without waiting to learn that its inputs are
                # unchanged.  The simulation follows the observation and records the over-build.
                risky = self.no_oob or any(self.how(c, {}) != "def" for c in acc)
                if risky and X in self.observed:
                    self.overbuilt.append(X)
                    saved, self.no_oob = self.no_oob, True
                    try:
                        return self.execute(X, rule)
                    finally:
                        self.no_oob = saved
            saved, self.no_oob = self.no_oob, True
            try:
                for c in acc:
                    if not self.request(c):
                        self.done[X] = "fail"
                        return False
            finally:
                self.no_oob = saved
            # after those ran with unchanged checksums X is still clean (needs_run was computed
            # with the from-scratch prediction); a differing checksum would have made X need a run.
            self.done[X] = "ok"
            return True
        return self.execute(X, rule)

    def execute(self, X, rule):
        m = self.m
        df, spec = rule
        self.ran.append(X)
        m.known.add(X)
        newseen = {df: ("m", m.ver.get(df, 0))}
        for adf in m.absent_candidates(X):
            newseen[adf] = ("c", None)
        if spec.kind == "always":
            newseen[ALWAYS] = ("m", 0)
        self.done[X] = "running"
        okay = True
        groups = m.script_deps(X, spec)
        for gi, (kind, payload) in enumerate(groups):
            self.kill_point(X, gi)
            if kind == "mt":
                # the script goes on when this request fails
                for d in payload:
                    newseen[d] = ("m", None)
                if self.request_list(payload, parent=X):
                    m.tolerate_now.discard(X)
                    for d in payload:
                        newseen[d] = ("m", m.ver.get(d, 0))
                else:
                    m.tolerate_now.add(X)
            elif kind == "m":
                for d in payload:
                    # dependency edges are recorded before the dependencies are built
                    newseen[d] = ("m", None)
                if not self.request_list(payload, parent=X):
                    okay = False
                    break
                for d in payload:
                    newseen[d] = ("m", m.ver.get(d, 0))
            elif kind == "sel":
                selsrc, table = payload
                sv = (m.content.get(selsrc) or "").rstrip("\n")
                for v, ds in table:
                    if v == sv:
                        for d in ds:
                            newseen[d] = ("m", None)
                        if not self.request_list(list(ds), parent=X):
                            okay = False
                        if okay:
                            for d in ds:
                                newseen[d] = ("m", m.ver.get(d, 0))
                        break
                if not okay:
                    break
            elif kind == "w":
                for wpath in payload:
                    if m.exists(wpath):
                        newseen[wpath] = ("m", None)
                        if not self.request(wpath):
                            okay = False
                            break
                        newseen[wpath] = ("m", m.ver.get(wpath, 0))
                    else:
                        newseen[wpath] = ("c", None)
                if not okay:
                    break
            elif kind == "wraw":
                for wpath in payload:
                    if m.exists(wpath):
                        okay = False
                        break
                    newseen[wpath] = ("c", None)
                if not okay:
                    break
            elif kind == "seq":
                res = []
                for cmd, names in payload:
                    if cmd == "uedit":
                        m.user_write(names[0], names[1])
                        res.append(True)
                        continue
                    if cmd == "udovar":
                        m.set_variant(names[0], int(names[1]))
                        res.append(True)
                        continue
                    if cmd in ("ifchange", "make-j2"):
                        for d in names:
                            newseen[d] = ("m", None)
                    r_ok = self.request_list(list(names), forced=(cmd == "redo"), parent=X)
                    res.append(bool(r_ok))
                    if cmd in ("ifchange", "make-j2"):
                        for d in names:
                            newseen[d] = ("m", m.ver.get(d, 0))
                self.seq_results[X] = res
            elif kind == "failcheck":
                if (m.content.get(payload) or "").rstrip("\n") == "1":
                    okay = False
                    break
        if not okay:
            m.tolerate_now.discard(X)
            m.failed[X] = True
            if not m.exists(X):
                # (only remembered, for the signature of an over-build: the failed rebuild of a REMOVED target tells its
                # dependents "changed" -- known finding F-C03-removed-then-failed)
                m.failed_while_removed = getattr(m, "failed_while_removed", frozenset()) | {X}
            m.built[X] = m.built.get(X, False)
            self.done[X] = "fail"
            m.interrupted.discard(X)
            # a failed build leaves the previous file in place
            return False
        self.kill_point(X, len(groups))
        self.kill_point(X, "e")
        v = m.evaluate(X, shallow=True)
        if v is FAIL:
            # only possible in cyclic graphs (a dependency was answered "clean" from inside its own build);
            # a from-scratch build cannot succeed there, so neither can this one
            m.failed[X] = True
            self.done[X] = "fail"
            self.inconsistent = True
            return False
        dg = hashlib.sha1(v.encode()).hexdigest()
        changed = True
        if spec.kind == "csum" and m.kind_at_build.get(X) == "csum" and m.built.get(X) and m.digest.get(X) == dg \
                and X not in m.noticed:
            changed = False
            # hand edits that no build ever looked at do not count: whoever was built from the previous build's output
            # is still up to date (versions bumped by those edits are rolled back)
            if X in m.ver_at_build:
                m.ver[X] = m.ver_at_build[X]
        m.noticed.discard(X)
        if X in m.tolerate_now:
            m.tolerate_now.discard(X)
            m.tolerated.add(X)      # built without something it asked for: it is out of date as long as that is so
        else:
            m.tolerated.discard(X)
        m.content[X] = v
        m.owner[X] = "redo"
        m.override.pop(X, None)
        m.built[X] = True
        m.failed[X] = False
        m.kind_at_build[X] = spec.kind
        m.seen[X] = newseen
        if spec.kind == "csum":
            m.digest[X] = dg
        else:
            m.digest.pop(X, None)
        if changed:
            m.bump(X)
        m.ver_at_build[X] = m.ver.get(X, 0)
        m.interrupted.discard(X)
        self.done[X] = "ok"
        return True
