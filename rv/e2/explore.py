"""E2 explorer: depth-first enumeration of schedules with iterative deviation bounding.

An execution follows the default policy (keep running the current thread while it is enabled, else the
lowest logical id; timers only when nothing else is enabled; source order of select!) except at the given
deviations.  All executions with <= `bound` deviations are enumerated; every execution runs to completion.
"""
import hashlib
import json
import time
from concurrent.futures import FIRST_COMPLETED, ProcessPoolExecutor, wait

from .. import common
from . import execn, ns


def _run(scn, devs, bindir, scratch, expect=None):
    """One execution; a prefix that does not replay identically is retried (a persistent divergence is reported
    as a machinery error by the caller, never as a verdict)."""
    res = None
    for attempt in range(3):
        try:
            res = ns.run_in_ns(execn.execute, scn, devs, bindir, scratch, expect, timeout=scn.get("exec_timeout", 120))
        except ns.NsError as e:
            res = {"verdict": "sched-error", "error": "namespace: %s" % e, "steps": [], "events": [], "roots": {},
                   "stderr": {}, "trace": [], "files": {}, "flags": {}, "divergence": [], "state_hashes": []}
        if not res.get("divergence") and res["verdict"] != "sched-error":
            break
        res["retries"] = attempt + 1
    return devs, res


def outcome_key(res):
    return hashlib.md5(json.dumps([res.get("verdict"), sorted((res.get("roots") or {}).items()),
                                   sorted(res.get("trace") or []), sorted((res.get("files") or {}).items())],
                                  default=str).encode()).hexdigest()


def children(res, devs, alt_filter=None):
    last = devs[-1][0] if devs else -1
    out = []
    for s in res["steps"]:
        if s["i"] <= last:
            continue
        for alt, en in enumerate(s["enabled"]):
            if alt == s["chosen"]:
                continue
            if alt_filter and not alt_filter(s, alt, en):
                continue
            out.append((tuple(devs) + ((s["i"], alt, tuple(en)),),
                        [(x["lid"], x["kind"], x["label"]) for x in res["steps"][:s["i"]]]))
    return out


class E2Explorer:
    def __init__(self, bindir, workers=None):
        self.bindir = str(bindir)
        self.workers = workers or common.NCPU
        self.pool = ProcessPoolExecutor(max_workers=self.workers)
        self.scratch = str(common.scratch_root())

    def close(self):
        self.pool.shutdown(wait=True, cancel_futures=True)

    def run_one(self, scn, devs=()):
        return _run(scn, tuple(devs), self.bindir, self.scratch)[1]

    def explore(self, scn, bound, oracle, budget_s=None, max_execs=None, alt_filter=None):
        """Returns dict(schedules, states, steps, outcomes, violations[(devs, sig, detail)], bound_done, capped, ...)"""
        t0 = time.time()
        res_sum = {"schedules": 0, "steps": 0, "violations": [], "capped": False, "bound_done": -1, "sched_errors": [],
                   "divergences": 0, "retries": 0, "max_steps": 0, "by_bound": {}, "sample": None, "verdicts": {}}
        states = set()
        outcomes = set()
        expect_of = {}
        # iterative bounding: level b holds all deviation tuples of length b
        level = [((), None)]
        for b in range(0, bound + 1):
            nxt = []
            pending = set()
            it = iter(level)
            done_level = 0
            exhausted = False

            def fill():
                nonlocal exhausted
                while len(pending) < self.workers * 2 and not exhausted:
                    if budget_s and time.time() - t0 > budget_s:
                        res_sum["capped"] = True
                        exhausted = True
                        break
                    if max_execs and res_sum["schedules"] + len(pending) >= max_execs:
                        res_sum["capped"] = True
                        exhausted = True
                        break
                    try:
                        d, expect = next(it)
                    except StopIteration:
                        exhausted = True
                        break
                    expect_of[d] = expect
                    pending.add(self.pool.submit(_run, scn, d, self.bindir, self.scratch, expect))
            fill()
            while pending:
                done, _ = wait(pending, return_when=FIRST_COMPLETED)
                for f in done:
                    pending.discard(f)
                    devs, res = f.result()
                    res_sum["schedules"] += 1
                    res_sum["retries"] += res.get("retries", 0)
                    done_level += 1
                    res_sum["steps"] += len(res["steps"])
                    res_sum["max_steps"] = max(res_sum["max_steps"], len(res["steps"]))
                    res_sum["verdicts"][res["verdict"]] = res_sum["verdicts"].get(res["verdict"], 0) + 1
                    states.update(res.get("state_hashes") or [])
                    outcomes.add(outcome_key(res))
                    if res["verdict"] == "sched-error":
                        res_sum["sched_errors"].append((devs, res.get("error")))
                        continue
                    if res.get("divergence"):
                        res_sum["divergences"] += 1
                        res_sum["sched_errors"].append((devs, "replay divergence: %r" % (res["divergence"][:1],)))
                        continue
                    if res_sum["sample"] is None or (devs and not res_sum["sample"]["devs"]):
                        res_sum["sample"] = {"devs": [list(d) for d in devs], "roots": res["roots"],
                                             "schedule": [[s["lid"], s["kind"], s["label"]] for s in res["steps"]][:400],
                                             "trace": res["trace"]}
                    viols = oracle(scn, res)
                    if viols:
                        # every failing schedule is executed a second time and must reproduce identically
                        _, res2 = _run(scn, devs, self.bindir, self.scratch, expect_of.get(devs))
                        sigs2 = sorted(json.dumps(s, sort_keys=True, default=str) for s, _ in oracle(scn, res2)) \
                            if res2["verdict"] != "sched-error" and not res2.get("divergence") else None
                        sigs1 = sorted(json.dumps(s, sort_keys=True, default=str) for s, _ in viols)
                        res_sum["confirmations"] = res_sum.get("confirmations", 0) + 1
                        if sigs1 != sigs2:
                            # a third execution decides: if it agrees with the second, the first observation was a
                            # transient of the machinery (an event of a dying process overtaking another under machine
                            # load) -- counted in the evidence, never reported; anything else is a machinery error
                            _, res3 = _run(scn, devs, self.bindir, self.scratch, expect_of.get(devs))
                            sigs3 = sorted(json.dumps(s, sort_keys=True, default=str) for s, _ in oracle(scn, res3)) \
                                if res3["verdict"] != "sched-error" and not res3.get("divergence") else None
                            if sigs3 is not None and sigs3 == sigs2:
                                res_sum["unreproduced"] = res_sum.get("unreproduced", 0) + 1
                                if sigs2:
                                    viols = oracle(scn, res2)
                                else:
                                    viols = []
                            else:
                                # three different observations of one schedule: events of processes that die (a killed tree, a
                                # script that was signalled) can overtake each other under heavy machine load.  Up to four more
                                # executions; an observation seen three times stands, anything else is a machinery error.
                                from collections import Counter
                                tally = Counter(json.dumps(x) for x in (sigs1, sigs2, sigs3) if x is not None)
                                keep = {json.dumps(sigs1): None, json.dumps(sigs2) if sigs2 is not None else "": res2,
                                        json.dumps(sigs3) if sigs3 is not None else "": res3}
                                for _extra in range(4):
                                    if tally and tally.most_common(1)[0][1] >= 3:
                                        break
                                    _, resn = _run(scn, devs, self.bindir, self.scratch, expect_of.get(devs))
                                    if resn["verdict"] == "sched-error" or resn.get("divergence"):
                                        continue
                                    sn = sorted(json.dumps(s, sort_keys=True, default=str) for s, _ in oracle(scn, resn))
                                    tally[json.dumps(sn)] += 1
                                    keep[json.dumps(sn)] = resn
                                if tally and tally.most_common(1)[0][1] >= 3:
                                    win = tally.most_common(1)[0][0]
                                    res_sum["unreproduced"] = res_sum.get("unreproduced", 0) + 1
                                    viols = oracle(scn, keep[win]) if json.loads(win) and keep.get(win) is not None else \
                                        (viols if win == json.dumps(sigs1) and json.loads(win) else [])
                                else:
                                    res_sum["sched_errors"].append((devs, "violation not reproducible on re-execution: %s vs %s vs %s"
                                                                    % (sigs1[:2], (sigs2 or ["<divergence>"])[:2], (sigs3 or ["<divergence>"])[:2])))
                                    viols = []
                    for sig, detail in viols:
                        res_sum["violations"].append((devs, sig, detail))
                    if b < bound:
                        nxt.extend(children(res, devs, alt_filter))
                fill()
            res_sum["by_bound"][b] = done_level
            if res_sum["capped"]:
                break
            res_sum["bound_done"] = b
            level = nxt
            if not level:
                break
        res_sum["states"] = len(states)
        res_sum["outcomes"] = len(outcomes)
        res_sum["wall_s"] = time.time() - t0
        return res_sum
