"""One controlled execution of a scenario (runs inside the namespace, as PID 1)."""
import os
import shutil
import sqlite3
import time
from pathlib import Path

from .. import canon
from ..common import VERIF, base_env
from ..e1 import Project, executed
from .sched import SchedError, Scheduler

DEFAULT_VISIBLE = ["start", "exit", "child-start", "fork-parent", "select", "tok-read", "cheat-read", "tok-write",
                   "lock-try", "lock-wait", "unlock", "txn-begin", "select-order", "script",
                   "init-check", "init-read", "init-unlink", "init-connect", "init-create", "init-runid"]


class MakePlayer:
    """The GNU-make parent as an environment player: it owns the token pipe and, like any other job of the same
    make, may take a token out of it (only while everything else is parked, so the read cannot race) and put it
    back later.  Every take and every voluntary put is a deviation; a put is forced when nothing else can run."""

    def __init__(self, rfd, wfd, takes):
        self.rfd, self.wfd, self.takes_left, self.held = rfd, wfd, takes, 0

    def choices(self):
        import select as _s
        out = []
        if self.takes_left > 0 and _s.select([self.rfd], [], [], 0)[0]:
            out.append("make-take")
        if self.held > 0:
            out.append("make-put")
        return out

    def act(self, label):
        if label == "make-take":
            import fcntl as _f
            fl = _f.fcntl(self.rfd, _f.F_GETFL)
            _f.fcntl(self.rfd, _f.F_SETFL, fl | os.O_NONBLOCK)
            try:
                got = os.read(self.rfd, 1)
            finally:
                _f.fcntl(self.rfd, _f.F_SETFL, fl)
            if len(got) != 1:
                raise SchedError("make player: token vanished while everything was parked")
            self.held += 1
            self.takes_left -= 1
        else:
            os.write(self.wfd, b"t")
            self.held -= 1

    def state(self):
        return "held=%d left=%d" % (self.held, self.takes_left)


def execute(scn, devs, bindir, scratch, expect=None):
    """scn: scenario dict; devs: tuple of (step, idx, (lid, kind, label)) deviations from the default schedule.
    Returns a picklable result dict."""
    t0 = time.time()
    root = Path(scratch) / ("x%d_%d" % (os.getppid(), time.monotonic_ns()))
    root.mkdir(parents=True)
    try:
        proj = Project(scn["world"], bindir, root, gates=True, log_mode=scn.get("log_mode", False),
                       dofiles_absent=scn.get("dofiles_absent"))
        proj.env["PATH"] = "%s:%s:/usr/bin:/bin" % (bindir, VERIF / "shim")
        for op in scn.get("setup", []):
            obs = proj.op(list(op))
            if obs.get("rc") not in (None, 0) and not scn.get("setup_may_fail"):
                return {"verdict": "setup-failed", "detail": obs.get("err", "")[-500:], "steps": [], "events": []}
        proj.read_trace()
        sockpath = str(root / "sock")
        divergence = []
        devmap = {d[0]: d for d in devs}

        def chooser(step, choices, default):
            d = devmap.get(step)
            if expect is not None and step < len(expect) and d is None:
                # replaying the parent's prefix: the default choice must be the one the parent took
                c = choices[default]
                if tuple(expect[step]) != (c[0], c[2], c[3]):
                    divergence.append((step, tuple(expect[step]), [(x[0], x[2], x[3]) for x in choices]))
            if d is None:
                return default
            _, idx, sig = d
            if idx >= len(choices) or tuple(sig) != (choices[idx][0], choices[idx][2], choices[idx][3]):
                # the recorded alternative is not there: the prefix did not replay identically
                divergence.append((step, sig, [(c[0], c[2], c[3]) for c in choices]))
                return default
            return idx

        sch = Scheduler(str(root), sockpath, str(proj.p / ".redo" / "locks"), scn.get("visible", DEFAULT_VISIBLE), chooser,
                        max_steps=scn.get("max_steps", 3000), poll_at=scn.get("poll_at"),
                        kill_roots=scn.get("kill_roots", ()), max_kills=scn.get("max_kills", 1),
                        term_scripts=scn.get("term_scripts", ()),
                        on_ask=lambda name: [proj.op(list(op)) for op in (scn.get("on_ask") or {}).get(name, [])])
        player = None
        env = dict(proj.env)
        env["REDO_VERIF_SOCK"] = sockpath
        os.makedirs(str(root / "flags"), exist_ok=True)
        env["RV_FLAGS"] = str(root / "flags")
        verdict = None
        err = None
        js = None
        pass_fds = ()
        if scn.get("jobserver"):
            # the harness plays the GNU-make parent: it owns the token pipe (N-1 tokens) and the cheat pipe
            n = int(scn["jobserver"])
            tr, tw = os.pipe()
            cr, cw = os.pipe()
            hi = [os.dup2(fd, 200 + i, inheritable=True) for i, fd in enumerate((tr, tw, cr, cw))]
            for fd in (tr, tw, cr, cw):
                os.close(fd)
            tr, tw, cr, cw = hi
            os.write(tw, scn.get("token_byte", b"t") * (n - 1))      # GNU make writes '+'; any byte value is a token
            env["MAKEFLAGS"] = " -j --jobserver-auth=%d,%d --jobserver-fds=%d,%d" % (tr, tw, tr, tw)
            if scn.get("no_cheatfds"):
                # a real GNU make parent: it knows nothing about redo's second pipe
                pass_fds = (tr, tw)
            else:
                env["REDO_CHEATFDS"] = "%d,%d" % (cr, cw)
                pass_fds = (tr, tw, cr, cw)
            js = {"n": n, "fds": (tr, tw, cr, cw)}
            if scn.get("make_player"):
                player = MakePlayer(tr, tw, int(scn["make_player"]))
                sch.env_player = player
        try:
            for r in scn["roots"]:
                e = dict(env)
                e.update(r.get("env", {}))
                cwd = proj.p / r.get("cwd", ".")
                sch.start_root(r["name"], r["argv"], str(cwd), e, pass_fds=pass_fds)
            verdict = sch.run()
        except SchedError as ex:
            verdict = "sched-error"
            err = str(ex)
        finally:
            sch.kill_all()
        jsres = None
        if js:
            import fcntl as _f
            out = {}
            for nm, fd in (("tokens_left", js["fds"][0]), ("cheats_left", js["fds"][2])):
                _f.fcntl(fd, _f.F_SETFL, _f.fcntl(fd, _f.F_GETFL) | os.O_NONBLOCK)
                try:
                    out[nm] = len(os.read(fd, 65536))
                except BlockingIOError:
                    out[nm] = 0
            out["initial_tokens"] = js["n"] - 1
            out["held_by_make"] = player.held if player else 0
            out["tokens_left"] += out["held_by_make"]     # what the make parent holds is not lost
            jsres = out
        # observations of the scheduled run itself, taken before any follow-up command
        main_trace = proj.read_trace()
        main_files = {n: c for n, (c, _i) in proj.snapshot().items()}
        dbobs = {"dbkey": None, "integrity": None, "dbrows": None, "runids": None}
        try:
            dbobs["dbkey"] = canon.db_key_norun(proj.p)
            db = proj.p / ".redo" / "db.sqlite3"
            if db.exists():
                con = sqlite3.connect(str(db), timeout=5)
                dbobs["integrity"] = con.execute("pragma integrity_check").fetchall()
                dbobs["dbrows"] = con.execute("select name, is_generated, failed_runid is not null and failed_runid != 0, rowid from Files").fetchall()
                dbobs["runids"] = con.execute("select id from Runid").fetchall()
                con.close()
        except Exception as ex:   # noqa
            dbobs["integrity"] = [("error", str(ex))]
        post = []
        for cmd in scn.get("post_cmds", []):
            rc_, out_, err_ = proj.redo(list(cmd))
            post.append({"argv": list(cmd), "rc": rc_, "out": out_, "err": err_})
        post_files = None
        if scn.get("post_ops"):
            proj.env.pop("REDO_VERIF_SOCK", None)
            pres = []
            for op in scn["post_ops"]:
                o = proj.op(list(op))
                pres.append({"op": list(op), "rc": o.get("rc"), "ran": executed(o.get("trace", []))})
            post_files = {"steps": pres, "files": {n: c for n, (c, _i) in proj.snapshot().items()}}
        res = {
            "post_ops": post_files,
            "post": post,
            "jobserver": jsres,
            "verdict": verdict, "error": err, "divergence": divergence,
            "steps": sch.steps, "events": sch.events, "flags": sch.flags,
            "roots": {r["name"]: r["rc"] for r in sch.roots},
            "stderr": {r["name"]: _read(root / ("err.%s" % r["name"])) for r in sch.roots},
            "stdout": {r["name"]: _read(root / ("out.%s" % r["name"])) for r in sch.roots},
            "trace": main_trace,
            "files": main_files,
            "n_states": len(sch.state_hashes), "state_hashes": list(sch.state_hashes)[:20000],
            "auto_released": sch.auto_released, "wall": time.time() - t0,
            "lids": {p.lid: p.argv for p in sch.procs.values() if p.argv},
        }
        res.update(dbobs)
        return res
    finally:
        shutil.rmtree(root, ignore_errors=True)


def _read(p):
    try:
        return Path(p).read_text(errors="replace")
    except OSError:
        return ""
