"""E2 scheduler: runs ONE execution of a scenario under a controlled schedule.

The scheduler is PID 1 of a private PID namespace (see ns.py), so /proc lists
exactly the processes of this execution, pids are small and reproducible, and
everything left over is killed by the kernel when the scheduler exits.

Every process of the subject parks at `gates` (src/verif.rs in the repository,
shim/vgate.c in build scripts) and proceeds only when released; exactly one
process runs at a time.  A step = release one enabled parked process, then
wait until the whole tree is quiescent again (every live process is parked at
a gate or blocked in the kernel waiting for a child / a pipe).
"""
import errno
import fcntl
import json
import os
import selectors
import signal as signal_mod
import socket
import struct
import subprocess
import time

# x86-64 syscall numbers that mean "blocked until someone else does something"
SYS_WAIT = {61, 247}                       # wait4, waitid
SYS_READ = {0, 17, 19, 45, 47, 299}        # read, pread64, readv, recvfrom, recvmsg, recvmmsg
SYS_POLL = {7, 23, 270, 271, 232, 281}     # poll, select, pselect6, ppoll, epoll_wait, epoll_pwait
SYS_SLEEP = {35, 230}                      # nanosleep, clock_nanosleep
SYS_PAUSE = {34, 130, 128}                 # pause, rt_sigsuspend, rt_sigtimedwait
SYS_WRITE = {1, 20}                        # write, writev (blocked on a full pipe)

ALWAYS_VISIBLE = {"select", "lock-wait", "select-order", "script", "start", "exit", "log-poll"}
YIELD_LABELS = ("timer", "poll")   # chosen by default only when nothing else is enabled
ENV_KIND = "env"                   # environment-player actions: never chosen by default


class SchedError(Exception):
    pass


class Proc:
    __slots__ = ("pid", "ppid", "lid", "conn", "buf", "gate", "dead", "nchild", "kind_hist", "is_script", "argv")

    def __init__(self, pid, ppid, lid):
        self.pid = pid
        self.ppid = ppid
        self.lid = lid
        self.conn = None
        self.buf = b""
        self.gate = None       # (kind, detail) when parked
        self.dead = False
        self.nchild = 0
        self.is_script = False
        self.argv = ""


def proc_stat(pid):
    """(state, ppid) or None"""
    try:
        with open("/proc/%d/stat" % pid, "rb") as f:
            s = f.read().decode("latin1")
    except (FileNotFoundError, ProcessLookupError):
        return None
    r = s.rfind(")")
    fields = s[r + 2:].split(" ")
    return fields[0], int(fields[1])


def proc_syscall(pid):
    try:
        with open("/proc/%d/syscall" % pid, "rb") as f:
            s = f.read().decode("latin1").split()
    except (FileNotFoundError, ProcessLookupError, PermissionError, OSError):
        return None
    if not s:
        return None
    if s[0] == "running":
        return "running"
    try:
        return int(s[0])
    except ValueError:
        return "running"


SYS_FUTEX = {202}                          # futex: a thread waiting for another thread of its own process


def other_threads_blocked(pid):
    """True if every thread of `pid` other than its main thread sleeps in a read, a poll or a futex (a helper thread that
    waits for input or for its main thread: the log viewer drains its standard input in a thread of its own).  A helper
    thread that is running means the process is not at rest, whatever its main thread does."""
    try:
        tids = os.listdir("/proc/%d/task" % pid)
    except (FileNotFoundError, ProcessLookupError, NotADirectoryError):
        return True
    for t in tids:
        if t == str(pid):
            continue
        try:
            with open("/proc/%d/task/%s/stat" % (pid, t), "rb") as f:
                st = f.read().decode("latin1")
            with open("/proc/%d/task/%s/syscall" % (pid, t), "rb") as f:
                sc = f.read().decode("latin1").split()
        except (FileNotFoundError, ProcessLookupError, PermissionError, OSError):
            continue       # gone meanwhile
        state = st[st.rfind(")") + 2:].split(" ")[0]
        if state in ("Z", "X"):
            continue
        if state != "S" or not sc or not sc[0].isdigit():
            return False
        if int(sc[0]) not in (SYS_READ | SYS_POLL | SYS_FUTEX):
            return False
    return True


class Scheduler:
    def __init__(self, workdir, sockpath, lockfile, visible, chooser, max_steps=4000, step_timeout=20.0, poll_at=None,
                 kill_roots=(), max_kills=1, env_player=None, on_ask=None, term_scripts=()):
        self.term_scripts = list(term_scripts)   # environment player "user": may send SIGTERM to the shell that runs one of these targets' scripts (once)
        self.terms_left = 1 if term_scripts else 0
        self.on_ask = on_ask                 # callback(name): environment action a script asks for at an "ask:<name>" gate
        self.asked = set()
        self.env_player = env_player         # environment player with choices() -> [label] and act(label) (the make parent)
        self.kill_roots = list(kill_roots)   # environment player "user": may SIGKILL the whole tree of these invocations
        self.kills_left = max_kills if kill_roots else 0
        self.poll_at = poll_at          # script-gate label prefix after which a pending log poll runs first by default
        self.polled_for = None
        self.workdir = workdir
        self.sockpath = sockpath
        self.lockfile = lockfile
        self.visible = set(visible) | ALWAYS_VISIBLE
        self.chooser = chooser
        self.max_steps = max_steps
        self.step_timeout = step_timeout
        self.sel = selectors.DefaultSelector()
        self.lsock = socket.socket(socket.AF_UNIX, socket.SOCK_STREAM)
        self.lsock.bind(sockpath)
        self.lsock.listen(64)
        self.lsock.setblocking(False)
        self.sel.register(self.lsock, selectors.EVENT_READ, None)
        self.procs = {}          # pid -> Proc
        self.roots = []          # (Popen, name)
        self.events = []         # notes: (step, lid, kind, detail)
        self.steps = []          # per step: dict
        self.step_no = 0
        self.last_lid = None
        self.anon = []           # connections whose pid is not yet known
        self.flags = {}
        self.lockfd = None
        self.auto_released = 0
        self.state_hashes = set()
        self.last_run = {}
        self.step_no_of_park = {}
        self.timer_fires = 0          # virtual time: number of timer expiries delivered so far
        self.sleep_since = {}         # (pid, gate) -> timer_fires when a script began a long piece of work
        self.sleepers_pending = 0
        self.sleeping = {}

    # -- process bookkeeping ---------------------------------------------------
    def lid_for_new(self, pid, ppid):
        # walk up to the nearest known ancestor
        p = ppid
        hops = 0
        while p not in self.procs and p > 1 and hops < 8:
            st = proc_stat(p)
            if not st:
                break
            p = st[1]
            hops += 1
        par = self.procs.get(p)
        if par is None:
            lid = "X%d" % len(self.procs)
        else:
            lid = "%s.%d" % (par.lid, par.nchild)
            par.nchild += 1
        return lid

    def on_line(self, conn_state, line):
        """conn_state: dict(conn=..., pid=...)"""
        try:
            tag, pid, ppid, kind, *rest = line.split(" ", 4)
            pid = int(pid)
            ppid = int(ppid)
        except ValueError:
            raise SchedError("bad protocol line %r" % line)
        detail = rest[0] if rest else ""
        if kind == "script":
            # vgate: attribute to the shell that runs the script (its parent)
            sh = self.procs.get(ppid)
            if sh is None:
                sh = Proc(ppid, 0, self.lid_for_new(ppid, proc_stat(ppid)[1] if proc_stat(ppid) else 0))
                self.procs[ppid] = sh
            sh.is_script = True
            if tag == "N":
                self.events.append((self.step_no, sh.lid, "script", detail))
                return
            # park the *shell's* logical thread on this vgate connection
            g = self.procs.get(pid)
            if g is None:
                g = Proc(pid, ppid, sh.lid + "/s")
                self.procs[pid] = g
            g.conn = conn_state["conn"]
            g.gate = ("script", detail)
            self.step_no_of_park[g.lid] = self.step_no
            conn_state["pid"] = pid
            return
        p = self.procs.get(pid)
        if p is None:
            p = Proc(pid, ppid, self.lid_for_new(pid, ppid))
            self.procs[pid] = p
        p.conn = conn_state["conn"]
        conn_state["pid"] = pid
        if kind == "start":
            p.argv = detail
        if tag == "N":
            self.events.append((self.step_no, p.lid, kind, detail))
            if kind == "panic":
                self.flags.setdefault("panics", []).append((p.lid, detail[:300]))
            return
        if kind not in self.visible:
            # not a scheduling point in this scenario: let the process continue at once
            self.events.append((self.step_no, p.lid, "~" + kind, detail))
            self.auto_released += 1
            self.send(p, "go")
            return
        p.gate = (kind, detail)

    def send(self, p, text):
        try:
            p.conn.sendall((text + "\n").encode())
        except (BrokenPipeError, ConnectionResetError, OSError):
            p.dead = True

    def pump(self, timeout):
        """Handle socket traffic for up to `timeout` seconds; returns number of events seen."""
        n = 0
        for key, _ in self.sel.select(timeout):
            if key.fileobj is self.lsock:
                try:
                    c, _a = self.lsock.accept()
                except BlockingIOError:
                    continue
                c.setblocking(False)
                st = {"conn": c, "pid": None, "buf": b""}
                self.sel.register(c, selectors.EVENT_READ, st)
                n += 1
                continue
            st = key.data
            c = st["conn"]
            try:
                data = c.recv(65536)
            except BlockingIOError:
                continue
            except (ConnectionResetError, OSError):
                data = b""
            if not data:
                self.sel.unregister(c)
                c.close()
                pid = st["pid"]
                if pid in self.procs and self.procs[pid].conn is c:
                    self.procs[pid].conn = None
                    if self.procs[pid].gate and self.procs[pid].gate[0] == "script":
                        self.procs[pid].gate = None
                n += 1
                continue
            st["buf"] += data
            while b"\n" in st["buf"]:
                line, st["buf"] = st["buf"].split(b"\n", 1)
                self.on_line(st, line.decode("utf-8", "replace"))
                n += 1
        return n

    def reap(self):
        while True:
            try:
                pid, status = os.waitpid(-1, os.WNOHANG)
            except ChildProcessError:
                return
            if pid == 0:
                return
            for r in self.roots:
                if r["popen"].pid == pid and r["rc"] is None:
                    r["rc"] = os.waitstatus_to_exitcode(status)
                    r["popen"].returncode = r["rc"]
            if pid in self.procs:
                self.procs[pid].dead = True
                self.procs[pid].gate = None

    def live_pids(self):
        out = []
        for name in os.listdir("/proc"):
            if name.isdigit():
                pid = int(name)
                if pid != 1:
                    out.append(pid)
        return out

    def quiescent_sample(self):
        """True if every live process is parked at a gate or legitimately blocked in the kernel.

        A process that never spoke to the scheduler (sh running builtins, cat, tr, printf, a subshell)
        cannot be a reason to wait: it is accepted only while it waits for a live child.  Hooked
        processes (redo binaries, the shell of a job -- same pid as the job's child-start) may also
        block reading a pipe or polling (redo waiting for redo-log's ack, redo-log reading its stdin)."""
        self.reap()
        parked = {p.pid for p in self.procs.values() if p.gate is not None and not p.dead}
        info = {}
        for pid in self.live_pids():
            st = proc_stat(pid)
            if st is not None:
                info[pid] = st
        live_children = {}
        sleepers = set()
        for pid, (state, ppid) in info.items():
            if state not in ("Z", "X"):
                live_children[ppid] = live_children.get(ppid, 0) + 1
        for pid, (state, ppid) in info.items():
            if state in ("Z", "X"):
                if ppid == 1:
                    return False   # our own child: reap first
                continue           # a zombie whose parent has not collected it yet: the parent decides
            if pid in parked:
                if not other_threads_blocked(pid):
                    return False       # parked at a gate while a helper thread of it is still at work
                continue
            if state != "S":
                return False
            sc = proc_syscall(pid)
            if sc == "running" or sc is None:
                return False
            if sc in SYS_WAIT:
                if live_children.get(pid, 0) > 0:
                    continue
                return False       # waiting although every child is gone: it is about to continue
            if pid in self.procs and (sc in SYS_READ or sc in SYS_POLL or sc in SYS_PAUSE or sc in SYS_WRITE):
                continue
            if pid in self.procs and sc in SYS_FUTEX:
                # the main thread waits for a helper thread of its own (which in turn waits for input: checked below)
                if other_threads_blocked(pid):
                    continue
                return False
            if pid in self.procs and sc in SYS_SLEEP:
                # a hooked process sleeping outside any gate: SQLite's busy handler waiting for a database lock
                # whose holder is parked.  After 150 ms of uninterrupted sleeping it counts as blocked (the holder
                # must be allowed to run); it wakes up by itself and either proceeds or sleeps again.
                t0 = self.sleeping.setdefault(pid, time.monotonic())
                sleepers.add(pid)
                if time.monotonic() - t0 >= 0.15:
                    continue
                return False
            return False
        for pid in list(self.sleeping):
            if pid not in sleepers:
                del self.sleeping[pid]
        if sleepers:
            self.flags["db_busy_waits"] = self.flags.get("db_busy_waits", 0) + 1
        return True

    def wait_quiescent(self):
        t0 = time.monotonic()
        stable = 0
        while True:
            n = self.pump(0 if stable else 0.0005)
            if n:
                stable = 0
                continue
            if self.quiescent_sample():
                stable += 1
                if stable >= 3 and not self.pump(0):
                    return
                time.sleep(0.0001)
            else:
                stable = 0
                time.sleep(0.0002)
            if time.monotonic() - t0 > self.step_timeout:
                raise SchedError("step watchdog: tree did not become quiescent: %s" % self.describe_tree())

    def describe_tree(self):
        out = []
        for pid in self.live_pids():
            st = proc_stat(pid)
            p = self.procs.get(pid)
            try:
                cmd = open("/proc/%d/cmdline" % pid, "rb").read().replace(b"\0", b" ").decode("latin1")[:80]
            except OSError:
                cmd = "?"
            out.append("%d[%s] %s sc=%s gate=%s cmd=%s" % (pid, p.lid if p else "?", st, proc_syscall(pid), p.gate if p else None, cmd))
        return "; ".join(out)

    # -- enabledness -------------------------------------------------------------
    def lock_free(self, fid, typ):
        if self.lockfd is None:
            try:
                self.lockfd = os.open(self.lockfile, os.O_RDWR)
            except FileNotFoundError:
                return True
        # struct flock { short l_type; short l_whence; off_t l_start; off_t l_len; pid_t l_pid; }
        l_type = fcntl.F_WRLCK if typ == "w" else fcntl.F_RDLCK
        buf = struct.pack("hhqqi4x", l_type, os.SEEK_SET, fid, 1, 0)
        res = fcntl.fcntl(self.lockfd, fcntl.F_GETLK, buf)
        got = struct.unpack("hhqqi4x", res)
        return got[0] == fcntl.F_UNLCK

    def refresh_select(self, p):
        """ask a process parked at its event loop to re-probe its descriptors"""
        p.gate = None
        self.send(p, "probe")
        t0 = time.monotonic()
        while p.gate is None and not p.dead:
            self.pump(0.002)
            if time.monotonic() - t0 > self.step_timeout:
                raise SchedError("probe watchdog for %s" % p.lid)

    @staticmethod
    def parse_detail(detail):
        d = {}
        for tok in detail.split(" "):
            if "=" in tok:
                k, v = tok.split("=", 1)
                d[k] = v
        return d

    def enabled_choices(self):
        """list of (lid, pid, kind, label, detail) in canonical order"""
        out = []
        self.sleepers_pending = 0
        for p in sorted((p for p in self.procs.values() if p.gate is not None and not p.dead), key=lambda p: lidkey(p.lid)):
            kind, detail = p.gate
            if kind == "select":
                self.refresh_select(p)
                if p.gate is None:
                    continue
                kind, detail = p.gate
                d = self.parse_detail(detail)
                ready = [x for x in d.get("ready", "").split(",") if x]
                timeout = int(d.get("timeout", "-1"))
                if ready:
                    out.append((p.lid, p.pid, kind, "io", detail))
                if timeout >= 0:
                    out.append((p.lid, p.pid, kind, "timer", detail))
            elif kind == "lock-wait":
                d = self.parse_detail(detail)
                if self.lock_free(int(d["fid"]), d.get("type", "w")):
                    out.append((p.lid, p.pid, kind, "go", detail))
            elif kind == "script" and detail.startswith("sleep:"):
                # a script doing a long piece of work (worlds.Spec.sync "sleep" K): it goes on after K timer expiries
                # anywhere in the tree -- the scenario's way of saying "this job outlasts K polling intervals"
                k = int(detail[6:].split(" ", 1)[0])
                t0 = self.sleep_since.setdefault((p.pid, detail), self.timer_fires)
                if self.timer_fires - t0 >= k:
                    out.append((p.lid, p.pid, kind, "go", detail))
                else:
                    self.sleepers_pending += 1
            elif kind == "script" and detail.startswith("wait:"):
                # a script waiting for another script's flag (worlds.Spec.sync): enabled once the flag exists
                flag = detail[5:].split(" ", 1)[0]
                if os.path.exists(os.path.join(self.workdir, "flags", flag)):
                    out.append((p.lid, p.pid, kind, "go", detail))
            elif kind == "script" and detail.startswith("ask:"):
                # the environment acts (once per name) while everything is parked, then the script may go on
                name = detail[4:].split(" ", 1)[0]
                if name not in self.asked:
                    self.asked.add(name)
                    if self.on_ask:
                        self.on_ask(name)
                    self.events.append((self.step_no, "ENV", "ask", name))
                out.append((p.lid, p.pid, kind, "go", detail))
            elif kind == "log-poll":
                out.append((p.lid, p.pid, kind, "poll", detail))
            elif kind == "select-order":
                out.append((p.lid, p.pid, kind, "0", detail))
                out.append((p.lid, p.pid, kind, "1", detail))
            else:
                out.append((p.lid, p.pid, kind, "go", detail))
        if not out and self.sleepers_pending:
            # nothing else can happen: time simply passes until the long jobs are done
            for p in sorted((p for p in self.procs.values() if p.gate is not None and not p.dead), key=lambda p: lidkey(p.lid)):
                kind, detail = p.gate
                if kind == "script" and detail.startswith("sleep:"):
                    out.append((p.lid, p.pid, kind, "go", detail))
            self.sleepers_pending = 0
        return out

    # -- running -----------------------------------------------------------------
    def start_root(self, name, argv, cwd, env, pass_fds=()):
        so = open(os.path.join(self.workdir, "out.%s" % name), "wb")
        se = open(os.path.join(self.workdir, "err.%s" % name), "wb")
        pop = subprocess.Popen(argv, cwd=cwd, env=env, stdin=subprocess.DEVNULL, stdout=so, stderr=se,
                               pass_fds=tuple(pass_fds))
        so.close()
        se.close()
        lid = name
        pr = Proc(pop.pid, 1, lid)
        self.procs[pop.pid] = pr
        self.roots.append({"popen": pop, "name": name, "rc": None})
        self.wait_quiescent()

    def global_state(self):
        items = []
        for p in self.procs.values():
            if p.dead:
                continue
            if p.gate:
                d = p.gate[1]
                items.append((p.lid, p.gate[0], normalise_detail(d, self.procs)))
        if self.env_player is not None:
            items.append(("ENV", "make", self.env_player.state()))
        import hashlib
        return hashlib.md5(repr(sorted(items)).encode()).hexdigest()[:16]

    def run(self):
        """Main loop. Returns a result dict."""
        verdict = "done"
        only_timer_states = {}
        while True:
            self.wait_quiescent()
            live = [pid for pid in self.live_pids() if (proc_stat(pid) or ("Z", 0))[0] not in ("Z", "X")]
            if not live:
                break
            choices = self.enabled_choices()
            if not choices:
                # double-check before calling it a deadlock: give the tree real time, look again
                time.sleep(0.05)
                self.wait_quiescent()
                choices = self.enabled_choices()
                live = [pid for pid in self.live_pids() if (proc_stat(pid) or ("Z", 0))[0] not in ("Z", "X")]
                if not live:
                    break
            if self.kills_left > 0:
                for r in self.roots:
                    if r["name"] in self.kill_roots and r["rc"] is None and any(
                            p.lid.startswith(r["name"] + ".") and not p.dead for p in self.procs.values()):
                        choices.append(("ENV", 0, "env", "kill:" + r["name"], ""))
            if self.terms_left > 0:
                # a script that is parked at one of its gates can be told to stop (only its shell gets the signal)
                for p in self.procs.values():
                    if p.gate and p.gate[0] == "script" and not p.dead and p.lid.endswith("/s"):
                        tgt = p.gate[1].split(" ")[-1].split(":")[-1]
                        if tgt in self.term_scripts:
                            choices.append(("ENV", 0, "env", "term:" + tgt, ""))
                            break
            if self.env_player is not None:
                for lab in self.env_player.choices():
                    choices.append(("ENV", 0, "env", lab, ""))
            if choices and all(c[2] == "env" for c in choices):
                # an environment action alone never hides a deadlock -- except an obligation of the environment
                # itself: a make parent that holds a token always returns it eventually (forced, costs nothing)
                choices = [c for c in choices if c[3].startswith("make-put")]
            if not choices and self.sleeping:
                # everything else is blocked and a process busy-waits for the database: give it real time
                t_end = time.monotonic() + 8.0
                while not choices and self.sleeping and time.monotonic() < t_end:
                    time.sleep(0.05)
                    self.wait_quiescent()
                    choices = self.enabled_choices()
                    if not [pid for pid in self.live_pids() if (proc_stat(pid) or ("Z", 0))[0] not in ("Z", "X")]:
                        break
                if not choices and self.sleeping:
                    verdict = "db-busy-stall"
                    self.flags["db-busy-stall"] = self.describe_tree()
                    break
            if not choices:
                if not [pid for pid in self.live_pids() if (proc_stat(pid) or ("Z", 0))[0] not in ("Z", "X")]:
                    break
                verdict = "deadlock"
                self.flags["deadlock"] = self.describe_tree()
                break
            if self.step_no >= self.max_steps:
                verdict = "step-cap"
                break
            if all(c[3] in YIELD_LABELS or c[2] == ENV_KIND for c in choices) and not self.sleepers_pending and \
                    any(c[3].startswith("make-put") for c in choices):
                # only pollers and timers can run, and the make parent holds a token: it always returns it eventually
                # (an obligation of the environment, not a deviation) -- nobody may be kept waiting for it for ever
                choices = [c for c in choices if c[3].startswith("make-put")]
            gs = self.global_state()
            self.state_hashes.add(gs)
            if all(c[3] in YIELD_LABELS or c[2] == ENV_KIND for c in choices) and not self.sleepers_pending:
                only_timer_states[gs] = only_timer_states.get(gs, 0) + 1
                if only_timer_states[gs] >= 8:
                    verdict = "livelock"
                    self.flags["livelock"] = self.describe_tree()
                    break
            # default: continue the running thread if it has a non-timer choice, else first non-timer, else first
            default = None
            if self.poll_at:
                # a script has just parked after a partial write: let the log follower read that fragment first
                cur = [c for c in choices if c[2] == "script" and c[4].startswith(self.poll_at) and same_thread(c[0], self.last_lid)]
                polls = [i for i, c in enumerate(choices) if c[3] == "poll"]
                if cur and polls and self.polled_for != (cur[0][0], self.step_no_of_park.get(cur[0][0])):
                    default = polls[0]
                    self.polled_for = (cur[0][0], self.step_no_of_park.get(cur[0][0]))
            if default is None:
                # continue the running thread: the process that ran last (or its script), else what it has just started,
                # else the next command of the same script, and only then its parent (which the thread returns to when
                # it ends -- a parent that merely waits for several jobs is not "the same thread" as a job that has
                # just begun)
                slids = {q.lid for q in self.procs.values() if q.lid.endswith("/s")}
                best = None
                for i, c in enumerate(choices):
                    if c[2] != ENV_KIND and c[3] not in YIELD_LABELS and c[3] != "1" and same_thread(c[0], self.last_lid, slids):
                        r = thread_rank(c[0], self.last_lid)
                        if best is None or r < best[0]:
                            best = (r, i)
                if best is not None:
                    default = best[1]
            if default is None:
                for i, c in enumerate(choices):
                    if c[2] != ENV_KIND and c[3] not in YIELD_LABELS and c[3] != "1":
                        default = i
                        break
            if default is None:
                # only timers / polls are enabled: be fair among them (least recently run first), so that a
                # polling follower cannot starve a process whose timer is about to fire, and vice versa
                cand = [i for i in range(len(choices)) if choices[i][2] != ENV_KIND] or list(range(len(choices)))
                default = min(cand, key=lambda i: (self.last_run.get(choices[i][0], -1), i))
            idx = self.chooser(self.step_no, choices, default)
            if idx is None:
                idx = default
            if not (0 <= idx < len(choices)):
                raise SchedError("chooser picked %r of %d choices at step %d" % (idx, len(choices), self.step_no))
            lid, pid, kind, label, detail = choices[idx]
            if kind == "env":
                self.steps.append({"i": self.step_no, "enabled": [(c[0], c[2], c[3]) for c in choices], "chosen": idx,
                                   "default": default, "lid": lid, "kind": kind, "label": label, "detail": ""})
                self.step_no += 1
                if label.startswith("kill:"):
                    self.kills_left -= 1
                    self.kill_tree(label.split(":", 1)[1])
                elif label.startswith("term:"):
                    self.terms_left -= 1
                    tgt = label.split(":", 1)[1]
                    for p in self.procs.values():
                        if p.gate and p.gate[0] == "script" and not p.dead and p.gate[1].split(" ")[-1].split(":")[-1] == tgt:
                            # p is the vgate helper; its parent is the script's shell
                            try:
                                os.kill(p.ppid, signal_mod.SIGTERM)
                            except ProcessLookupError:
                                pass
                            self.events.append((self.step_no - 1, "ENV", "term", tgt))
                            # the helper itself goes too (nobody is left to read its answer)
                            try:
                                os.kill(p.pid, signal_mod.SIGKILL)
                            except ProcessLookupError:
                                pass
                            p.gate = None
                            p.dead = True
                            break
                else:
                    self.env_player.act(label)
                    self.events.append((self.step_no - 1, "ENV", "make", label))
                continue
            self.steps.append({"i": self.step_no, "enabled": [(c[0], c[2], c[3]) for c in choices], "chosen": idx,
                               "default": default, "lid": lid, "kind": kind, "label": label,
                               "detail": normalise_detail(detail, self.procs)})
            p = self.procs[pid]
            p.gate = None
            self.last_lid = lid
            self.last_run[lid] = self.step_no
            self.step_no += 1
            if kind == "select":
                if label == "timer":
                    self.timer_fires += 1
                self.send(p, "go " + ("timer" if label == "timer" else "io"))
            elif kind == "select-order":
                self.send(p, "go " + label)
            else:
                self.send(p, "go")
            if kind == "script" and p.conn is not None:
                pass
        self.reap()
        return verdict

    def kill_tree(self, rootname):
        """SIGKILL the root invocation and every process descended from it (the user presses ^C / kill -9 -pgid)."""
        root = next(r for r in self.roots if r["name"] == rootname)
        parent = {}
        for pid in self.live_pids():
            st = proc_stat(pid)
            if st:
                parent[pid] = st[1]
        victims = set()
        for p in self.procs.values():
            if p.lid == rootname or p.lid.startswith(rootname + ".") or p.lid.startswith(rootname + "/"):
                victims.add(p.pid)
        grew = True
        while grew:
            grew = False
            for pid, pp in parent.items():
                if pp in victims and pid not in victims:
                    victims.add(pid)
                    grew = True
        victims.add(root["popen"].pid)
        self.events.append((self.step_no, "ENV", "kill", rootname))
        for pid in victims:
            try:
                os.kill(pid, 9)
            except ProcessLookupError:
                pass
        for p in self.procs.values():
            if p.pid in victims:
                p.gate = None
                p.dead = True

    def kill_all(self):
        for pid in self.live_pids():
            try:
                os.kill(pid, 9)
            except ProcessLookupError:
                pass
        t0 = time.monotonic()
        while self.live_pids() and time.monotonic() - t0 < 5:
            self.reap()
            time.sleep(0.001)


def lidkey(lid):
    out = []
    for part in lid.replace("/s", ".-1").replace("T", "").replace("X", "999.").split("."):
        try:
            out.append(int(part))
        except ValueError:
            out.append(0)
    return out


def thread_rank(lid, last):
    """among candidates of the running thread: 0 the same process / its script, 1 its child, 2 a sibling command, 3 its parent"""
    a, b = lid.replace("/s", ""), last.replace("/s", "")
    if a == b:
        return 0
    if a.startswith(b + "."):
        return 1
    if b.startswith(a + "."):
        return 3
    return 2


def same_thread(lid, last, script_lids=None):
    """A hand-over between a process and its direct child/parent (sh <-> vgate, sh <-> the redo it
    runs in the foreground) continues the same logical thread of control."""
    if last is None:
        return False
    a, b = lid.replace("/s", ""), last.replace("/s", "")
    if a == b:
        return True
    if a.startswith(b + ".") and a.count(".") == b.count(".") + 1 or \
            b.startswith(a + ".") and b.count(".") == a.count(".") + 1:
        return True
    # consecutive foreground commands of one script (redo-always; redo-ifchange x; redo-stamp ...) are siblings whose
    # parent is the script's shell: the script does not pass a gate of its own between them, so the next command
    # continues the thread of the one that has just ended
    if script_lids is not None and "." in a and "." in b and a.rsplit(".", 1)[0] == b.rsplit(".", 1)[0] \
            and (a.rsplit(".", 1)[0] + "/s") in script_lids:
        return True
    return False


def normalise_detail(detail, procs):
    """replace pids in details by logical ids so that states compare across executions"""
    import re

    def sub(m):
        pid = int(m.group(2))
        p = procs.get(pid)
        return m.group(1) + (p.lid if p else "?")
    return re.sub(r"(job|child=)(\d+)", sub, detail)
