"""Scenario library for the E2 schedule explorer (shared by C05-C09, C12, C14-C16, C18)."""
from ..worlds import S, World, curated

V2 = ["0", "1"]


def W():
    w = dict(curated())
    w["fan3x2"] = World(
        "fan3x2", {"s": V2},
        {"t1.do": [S(deps=["a", "b", "c"])], "t2.do": [S(deps=["d"], out="file")],
         "a.do": [S(deps=["s"])], "b.do": [S(deps=["s"], out="file")], "c.do": [S(deps=["s"])], "d.do": [S(deps=["s"])]},
        ["t1", "t2", "a", "b", "c", "d"], ["t1", "t2"])
    w["one"] = World("one", {"s": V2}, {"x.do": [S(deps=["s"])]}, ["x"], ["x"])
    w["two"] = World("two", {"s": V2}, {"x.do": [S(deps=["s"])], "y.do": [S(deps=["s"], out="file")]}, ["x", "y"], ["x", "y"])
    w["shared"] = World(
        "shared", {"s": V2},
        {"t1.do": [S(deps=["x"])], "t2.do": [S(deps=["x"], out="file")], "x.do": [S(deps=["s"])]},
        ["t1", "t2", "x"], ["t1", "t2"])
    w["fan3"] = World(
        "fan3", {"s": V2},
        {"top.do": [S(deps=["a", "b", "c"])], "a.do": [S(deps=["leaf"])], "b.do": [S(deps=["leaf"], out="file")],
         "c.do": [S(deps=["leaf"])], "leaf.do": [S(deps=["s"])]},
        ["top", "a", "b", "c", "leaf"], ["top"])
    w["cross"] = World(   # two sub-redos that each want, second, the other's first target
        "cross", {"s": V2},
        {"p.do": [S(deps=["x", "y"])], "q.do": [S(deps=["y", "x"], out="file")], "x.do": [S(deps=["s"])], "y.do": [S(deps=["s"])]},
        ["p", "q", "x", "y"], ["p", "q"])
    w["cross-src"] = World(   # as cross, but each list starts with a source: its "job" is complete at once (a ready future)
        "cross-src", {"s": V2},
        {"p.do": [S(deps=["s", "x", "y"])], "q.do": [S(deps=["s", "y", "x"], out="file")], "x.do": [S(deps=["s"])], "y.do": [S(deps=["s"])]},
        ["p", "q", "x", "y"], ["p", "q"])
    w["failfan"] = World(
        "failfan", {"s": V2, "flag": ["1", "0"]},
        {"top.do": [S(deps=["f", "h"])], "f.do": [S(deps=["s"], fail="flag")], "h.do": [S(deps=["s"], out="file")]},
        ["top", "f", "h"], ["top"])
    w["failshared"] = World(   # two jobs need one target whose build fails: the second waits for its lock
        "failshared", {"s": V2, "flag": ["1", "0"]},
        {"a.do": [S(deps=["z"])], "b.do": [S(deps=["z"], out="file")], "z.do": [S(deps=["s"], fail="flag")]},
        ["a", "b", "z"], ["a", "b"])
    return w


def scn(name, world, roots, setup=(), **kw):
    d = {"name": name, "world": world, "setup": list(setup),
         "roots": [{"name": "T%d" % i, "argv": (r if isinstance(r, list) else r.split())} if not isinstance(r, dict) else r
                   for i, r in enumerate(roots)]}
    d.update(kw)
    return d


# gate sets: which hook kinds are scheduling points (everything else is passed through without a choice)
CORE = ["start", "exit", "child-start", "fork-parent", "select", "tok-read", "cheat-read", "tok-write",
        "lock-try", "lock-wait", "unlock", "select-order", "script"]
DB = ["txn-begin", "init-check", "init-begin", "txn-upgrade"]
LOCKS = ["start", "exit", "select", "lock-try", "lock-wait", "unlock", "script", "txn-begin", "fork-parent", "child-start"]
TOKENS = ["start", "exit", "child-start", "fork-parent", "select", "tok-read", "cheat-read", "tok-write", "select-order",
          "script", "lock-wait", "unlock"]
