"""Run a function as PID 1 of a fresh PID+mount namespace with a private /proc.

The caller gets the function's (picklable) return value.  When the function
returns, PID 1 exits and the kernel kills whatever is left in the namespace.
"""
import ctypes
import os
import pickle
import signal
import struct
import sys
import traceback

CLONE_NEWNS = 0x00020000
CLONE_NEWPID = 0x20000000
MS_REC = 0x4000
MS_PRIVATE = 1 << 18

_libc = ctypes.CDLL(None, use_errno=True)


class NsError(Exception):
    pass


def _read_all(fd):
    chunks = []
    while True:
        b = os.read(fd, 1 << 20)
        if not b:
            break
        chunks.append(b)
    return b"".join(chunks)


def _write_all(fd, data):
    mv = memoryview(data)
    while mv:
        n = os.write(fd, mv)
        mv = mv[n:]


def run_in_ns(fn, *args, timeout=None):
    r, w = os.pipe()
    sys.stdout.flush()
    sys.stderr.flush()
    mid = os.fork()
    if mid == 0:
        # intermediate: creates the namespace, forks its init, waits
        try:
            os.close(r)
            if _libc.unshare(CLONE_NEWPID | CLONE_NEWNS) != 0:
                os.write(w, pickle.dumps(("err", "unshare failed errno=%d" % ctypes.get_errno())))
                os._exit(3)
            init = os.fork()
            if init == 0:
                try:
                    if _libc.mount(b"none", b"/", None, MS_REC | MS_PRIVATE, None) != 0:
                        raise NsError("mount --make-rprivate failed errno=%d" % ctypes.get_errno())
                    if _libc.mount(b"proc", b"/proc", b"proc", 0, None) != 0:
                        raise NsError("mount proc failed errno=%d" % ctypes.get_errno())
                    signal.signal(signal.SIGTERM, signal.SIG_DFL)
                    res = ("ok", fn(*args))
                except BaseException as e:   # noqa
                    res = ("err", "%s\n%s" % (e, traceback.format_exc()))
                try:
                    _write_all(w, pickle.dumps(res))
                except Exception as e:      # noqa
                    _write_all(w, pickle.dumps(("err", "unpicklable result: %s" % e)))
                os._exit(0)
            os.close(w)
            if timeout:
                signal.signal(signal.SIGALRM, lambda *_: (os.kill(init, 9), None))
                signal.alarm(int(timeout))
            _, st = os.waitpid(init, 0)
            os._exit(0 if st == 0 else 4)
        except BaseException:   # noqa
            os._exit(5)
    os.close(w)
    data = _read_all(r)
    os.close(r)
    _, st = os.waitpid(mid, 0)
    if not data:
        raise NsError("namespace child died without a result (status %r)" % st)
    kind, val = pickle.loads(data)
    if kind == "err":
        raise NsError(val)
    return val
