"""Step oracles shared by the E1 properties (C01, C02, C03, C05, C14, C17...)."""
from collections import Counter

from .e1 import ended, executed
from .refmodel import FAIL, RefBuild


def closure_now(model, roots):
    """targets in the closure of roots under the *current* scripts and sources"""
    out = []
    seen = set()

    def go(x):
        x = model.canon(x)
        if x in seen:
            return
        seen.add(x)
        if x in model.variant or model.is_sourcelike(x):
            return
        r = model.rule_for(x)
        if r is None:
            return
        out.append(x)
        _, spec = r
        for kind, payload in model.script_deps(x, spec):
            if kind == "m":
                for d in payload:
                    go(d)
            elif kind == "sel":
                sv = (model.content.get(payload[0]) or "").rstrip("\n")
                for v, ds in payload[1]:
                    if v == sv:
                        for d in ds:
                            go(d)
            elif kind == "w":
                for d in payload:
                    if model.exists(d):
                        go(d)
    for r in roots:
        go(r)
    return out


def check_content(proj, obs):
    """C01: after a build command that exits 0, T and its closure equal the from-scratch evaluation."""
    out = []
    op = obs["op"]
    if op[0] not in ("ifchange", "redo") or obs["rc"] != 0:
        return out
    m = proj.model
    after = obs["after"]
    for x in closure_now(m, op[1]):
        want = m.evaluate(x)
        got = after.get(x, (None, None))[0]
        if want is FAIL:
            out.append(({"kind": "exit0-but-unbuildable", "world": proj.w.name, "target": x},
                        {"got": got}))
        elif got != want:
            out.append(({"kind": "stale-content", "world": proj.w.name, "target": x},
                        {"want": want, "got": got}))
    return out


def check_exit(proj, obs):
    """exit status agrees with the reference (non-zero iff some requested target cannot be built)"""
    out = []
    op = obs["op"]
    if op[0] not in ("ifchange", "redo"):
        return out
    pred = obs["pred"]
    if obs["rc"] == 101 or "panicked" in obs["err"]:
        out.append(({"kind": "abort", "world": proj.w.name, "cmd": op[0]}, {"err": obs["err"][-400:]}))
    elif pred["ok"] and obs["rc"] != 0:
        out.append(({"kind": "spurious-failure", "world": proj.w.name, "cmd": op[0], "rc": obs["rc"]},
                    {"err": obs["err"][-400:]}))
    elif not pred["ok"] and obs["rc"] == 0:
        out.append(({"kind": "missed-failure", "world": proj.w.name, "cmd": op[0]}, {"err": obs["err"][-400:]}))
    return out


def check_runset(proj, obs, strict=True):
    """C02: executed multiset == reference must-run (each at most once)."""
    out = []
    op = obs["op"]
    if op[0] not in ("ifchange", "redo"):
        return out
    pred = obs["pred"]
    ran = executed(obs["trace"])
    cnt = Counter(ran)
    want = Counter(pred["ran"])   # >1 only for `redo X` naming a target that an earlier argument already built
    dup = sorted(x for x, n in cnt.items() if n > max(1, want.get(x, 0)))
    if dup:
        out.append(({"kind": "ran-twice", "world": proj.w.name, "targets": dup}, {"ran": ran, "must": pred["ran"]}))
    if pred.get("ambiguous") and not pred["ok"]:
        return out     # several checksummed targets are rebuilt out of band in an unspecified order: which of them ran before a failure is open
    for x in pred.get("overbuilt", []):
        out.append(({"kind": "over-built", "reason": "nested-csum", "cmd": op[0]},
                    {"world": proj.w.name, "target": x, "ran": ran}))
    must = set(pred["ran"])
    got = set(ran)
    if not pred["ok"] and not (op[2] if len(op) > 2 else {}).get("k"):
        # after the first failure the order in which siblings were attempted decides what ran; the
        # reference models redo's documented left-to-right order at -j1, so sets must still agree
        pass
    missing = sorted(must - got)
    extra = sorted(got - must)
    if missing:
        out.append(({"kind": "not-rebuilt", "world": proj.w.name, "targets": missing, "cmd": op[0]},
                    {"ran": ran, "must": pred["ran"]}))
    if extra and strict:
        sig = {"kind": "over-built", "world": proj.w.name, "targets": extra, "cmd": op[0]}
        fwr = getattr(proj.model, "failed_while_removed", frozenset())
        if fwr and all(fwr & set(closure_now(proj.model, [x])) for x in extra):
            # every over-built target has, below it, a target whose rebuild failed while its file was removed
            sig["reason"] = "dependency-failed-while-removed"
        out.append((sig, {"ran": ran, "must": pred["ran"]}))
    return out


def check_kill(proj, obs):
    """interrupted builds (op kbuild): the implementation reached the kill point iff the reference did"""
    if obs.get("kill_mismatch"):
        return [({"kind": "interrupted-build-mismatch", "world": proj.w.name, "victim": obs["op"][2], "pos": obs["op"][3],
                  "reference_killed": obs["pred"]["killed"]},
                 {"rc": obs["rc"], "ran": executed(obs["trace"]), "must": obs["pred"]["ran"], "err": obs["err"][-400:]})]
    return []
