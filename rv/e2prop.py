"""Glue for properties decided by the E2 schedule explorer."""
import json
import time
from collections import Counter

from . import common
from .e2 import explore


def base_oracle(scn, res):
    """C09's oracle, applied to every E2 execution of every property: no abort, no deadlock, no livelock."""
    out = []
    v = res["verdict"]
    if v in ("deadlock", "livelock"):
        out.append(({"kind": v, "scenario": scn["name"]}, {"tree": res["flags"].get(v), "roots": res["roots"]}))
    elif v == "db-busy-stall":
        out.append(({"kind": "stalled-on-database-lock", "scenario": scn["name"]}, {"tree": res["flags"].get(v), "roots": res["roots"]}))
    elif v == "step-cap":
        out.append(({"kind": "no-termination-within-step-cap", "scenario": scn["name"]}, {"roots": res["roots"]}))
    for lid, msg in res["flags"].get("panics", []):
        where = msg.split(":")[0].replace("panicked at ", "")
        out.append(({"kind": "panic", "scenario": scn["name"], "where": where, "line": panic_site(msg)},
                    {"lid": lid, "msg": msg}))
    killed = {e[3] for e in res.get("events", []) if e[1] == "ENV" and e[2] == "kill"}
    for n, rc in res["roots"].items():
        if n in killed:
            continue     # killed by the environment player, on purpose
        if rc == 101 and not res["flags"].get("panics"):
            out.append(({"kind": "exit-101", "scenario": scn["name"]}, {"stderr": res["stderr"].get(n, "")[-600:]}))
        if rc is not None and rc < 0 and v == "done":
            out.append(({"kind": "killed-by-signal", "scenario": scn["name"], "sig": -rc}, {"stderr": res["stderr"].get(n, "")[-600:]}))
    return out


def panic_site(msg):
    # "panicked at src/jobserver.rs:693:9: assertion failed: ..."  ->  "src/jobserver.rs: assertion failed: self.my_tokens >= 1"
    try:
        loc, rest = msg.replace("panicked at ", "").split(": ", 1)
        return loc.split(":")[0] + ": " + rest.strip()[:120]
    except ValueError:
        return msg[:160]


def run_property(pid, tier, plan, oracle, level="model_checking", rule="", assumptions=(), budget_s=None, extra=None,
                 base=True, alt_filter=None, collect=None, prepare=None):
    """plan: list of (scenario dict, bound). oracle(scn, res) -> [(sig, detail)]."""
    t0 = time.time()
    bindir = common.build_subject()
    verdict = common.Verdict(pid)
    ex = explore.E2Explorer(bindir)
    tot = Counter()
    per = {}
    samples = []
    capped = []
    machinery = []

    def full_oracle(scn, res):
        out = []
        if base:
            out += base_oracle(scn, res)
        out += oracle(scn, res)
        if collect:
            collect(scn, res)
        return out
    try:
        n = len(plan)
        # cheap scenarios first: what they leave of their share of the budget goes to the expensive ones (the budget is only a
        # safety net -- plans are sized to finish -- but under machine load the deepest scenarios should be the ones with slack)
        plan = sorted(plan, key=lambda sb: sb[1])
        for k, (scn, bound) in enumerate(plan):
            left = None
            if budget_s:
                # split what is left evenly over the remaining scenarios
                left = max(3.0, (budget_s - (time.time() - t0)) / (n - k))
            if prepare:
                prepare(ex, scn)
            r = ex.explore(scn, bound, full_oracle, budget_s=left, alt_filter=alt_filter)
            tot["schedules"] += r["schedules"]
            tot["steps"] += r["steps"]
            tot["states"] += r["states"]
            tot["outcomes"] += r["outcomes"]
            per[scn["name"]] = {"bound_requested": bound, "bound_completed": r["bound_done"], "schedules": r["schedules"],
                                "by_bound": r["by_bound"], "distinct_states": r["states"], "distinct_final_outcomes": r["outcomes"],
                                "max_steps": r["max_steps"], "capped": r["capped"], "verdicts": r["verdicts"],
                                "first_observations_not_reproduced": r.get("unreproduced", 0)}
            if r["capped"]:
                capped.append(scn["name"])
            if r["sched_errors"]:
                machinery += [(scn["name"], d, e) for d, e in r["sched_errors"][:3]]
            if r["sample"]:
                s = dict(r["sample"])
                s["scenario"] = scn["name"]
                s["schedule"] = s["schedule"][:60]
                samples.append(s)
            for devs, sig, detail in r["violations"]:
                doc = {"engine": "E2", "scenario": scn["name"], "deviations": [list(d) for d in devs], "detail": detail}
                verdict.report(sig, doc)
    finally:
        ex.close()
        common.cleanup_scratch()
    if machinery:
        raise common.MachineryError("scheduler errors (not verdicts): %r" % (machinery[:2],))
    cov = {
        "states": max(1, tot["states"]), "transitions": max(1, tot["steps"]),
        "traces_validated_against_impl": tot["schedules"],
        "samples": samples[:4] or [{"note": "no schedule"}],
        "exhaustive": not capped,
        "rule": rule,
        "schedules": tot["schedules"],
        "distinct_final_outcomes": tot["outcomes"],
        "scenarios": per,
        "caps_hit": capped,
        "evaluations": tot["schedules"], "distinct_nontrivial": max(2, tot["outcomes"]),
    }
    if extra:
        cov.update(extra() if callable(extra) else extra)
    rc = verdict.finish()
    common.write_evidence(pid, tier, level, cov, time.time() - t0, verdict.count, list(assumptions))
    print(f"[{pid}] tier={tier} schedules={tot['schedules']} steps={tot['steps']} states={tot['states']} "
          f"outcomes={tot['outcomes']} capped={capped} wall={time.time()-t0:.1f}s")
    return rc


def replay(pid, scenarios, oracle, path, base=True):
    """Re-execute a recorded schedule twice; both runs must agree; returns 1 if a violation is reproduced."""
    doc = json.load(open(path))
    scn = scenarios[doc["scenario"]]
    bindir = common.build_subject()
    ex = explore.E2Explorer(bindir, workers=2)
    try:
        devs = tuple((d[0], d[1], tuple(d[2])) for d in doc["deviations"])
        r1 = ex.run_one(scn, devs)
        r2 = ex.run_one(scn, devs)
    finally:
        ex.close()
        common.cleanup_scratch()
    k1, k2 = explore.outcome_key(r1), explore.outcome_key(r2)
    if k1 != k2 or r1.get("divergence") or r2.get("divergence"):
        raise common.MachineryError("replay is not deterministic (outcomes %s / %s, divergence %r)" % (k1, k2, r1.get("divergence")))
    out = (base_oracle(scn, r1) if base else []) + oracle(scn, r1)
    for s in r1["steps"]:
        print(s["i"], s["lid"], s["kind"], s["label"], s["detail"][:60])
    print("roots:", r1["roots"], "verdict:", r1["verdict"])
    for n, e in r1["stderr"].items():
        print("stderr", n, e[-500:])
    v = common.Verdict(pid)
    new = [x for x in out if not any(v.matches(f, x[0]) for f in v.kf)]
    for x in out:
        print("VIOLATION-REPLAYED", x[0])
    return 1 if new else 0
