"""Shared plumbing: subject build, scratch dirs, command execution, evidence, findings.

Exit-code convention of every check: 0 held (possibly with KNOWN-FINDING lines),
1 VIOLATION (with replay path), 2 machinery error (never a verdict).
"""
import fcntl
import hashlib
import json
import os
import shutil
import signal
import subprocess
import sys
import tempfile
import time
from pathlib import Path

VERIF = Path(__file__).resolve().parent.parent
REPO = Path(os.environ.get("VERIF_REPO", "/repo")).resolve()
CACHE = Path(os.environ.get("VERIF_CACHE", str(VERIF / ".cache")))
EVIDENCE_DIR = Path(os.environ.get("VERIF_EVIDENCE_DIR", str(VERIF / "evidence")))   # seedrun redirects this
REPLAY_DIR = Path(os.environ["VERIF_REPLAY_DIR"]) if os.environ.get("VERIF_REPLAY_DIR") else VERIF / "replays"   # (runs against seeded worktrees write theirs elsewhere)
SHM = Path("/dev/shm") if Path("/dev/shm").is_dir() else Path("/tmp")
NCPU = int(os.environ.get("VERIF_JOBS", str(os.cpu_count() or 4)))

REDO_TOOLS = [
    "redo-always", "redo-ifchange", "redo-ifcreate", "redo-log", "redo-ood",
    "redo-sources", "redo-stamp", "redo-targets", "redo-unlocked", "redo-whichdo",
]


class MachineryError(Exception):
    """Something in the checking machinery (not the subject) went wrong."""


def seed() -> int:
    try:
        return int(os.environ.get("VERIF_SEED", "0"))
    except ValueError:
        return 0


# ---------------------------------------------------------------------------
# building the subject from the repository's *current working tree*

def _tree_hash() -> str:
    h = hashlib.sha256()
    files = [REPO / "Cargo.toml", REPO / "Cargo.lock"]
    files += sorted((REPO / "src").rglob("*.rs"))
    for f in files:
        h.update(str(f.relative_to(REPO)).encode())
        h.update(b"\0")
        h.update(f.read_bytes())
        h.update(b"\0")
    h.update(str(REPO).encode())
    return h.hexdigest()[:16]


def cargo_env():
    env = dict(os.environ)
    env["CARGO_NET_OFFLINE"] = "true"
    env.pop("RUSTFLAGS", None)
    for k in list(env):
        if k.startswith("REDO") or k in ("MAKEFLAGS", "DO_BUILT"):
            env.pop(k)
    return env


def target_dir(stem) -> Path:
    """One cargo target dir per checkout: cargo's freshness test is by mtime relative to the package root, so
    two checkouts of the same package must never share a target dir (an older-but-different source tree would
    be taken for up to date)."""
    if str(REPO) == "/repo":
        return CACHE / stem
    return CACHE / ("%s-%s" % (stem, hashlib.sha256(str(REPO).encode()).hexdigest()[:10]))


def build_subject(quiet=True) -> Path:
    """Build /repo (hooks on) if its sources changed; return the bin dir."""
    CACHE.mkdir(parents=True, exist_ok=True)
    with open(CACHE / "build.lock", "w") as lk:
        fcntl.flock(lk, fcntl.LOCK_EX)
        th = _tree_hash()
        bindir = CACHE / f"subject-{th}" / "bin"
        if (bindir / "redo").exists() and (bindir / ".ok").exists():
            try:
                os.utime(bindir.parent)      # mark as in use (eviction below is by age)
            except OSError:
                pass
            ensure_shims_unlocked()
            return bindir
        tdir = target_dir("target")
        cmd = ["cargo", "build", "--offline", "--manifest-path", str(REPO / "Cargo.toml"),
               "--features", "verif-hooks", "--bin", "redo", "--target-dir", str(tdir)]
        t0 = time.time()
        p = subprocess.run(cmd, env=cargo_env(), stdout=subprocess.PIPE, stderr=subprocess.STDOUT, text=True)
        if p.returncode != 0:
            sys.stderr.write(p.stdout[-4000:])
            raise MachineryError("cargo build of the subject failed")
        if not quiet:
            print(f"[build] subject built in {time.time()-t0:.1f}s", file=sys.stderr)
        # evict old subjects, but never one that was used in the last three hours: another check (or a run against
        # a seeded change in another checkout) may be executing it right now
        olds = sorted([d for d in CACHE.glob("subject-*") if d.is_dir()], key=lambda d: d.stat().st_mtime)
        for d in olds[:-3]:
            if time.time() - d.stat().st_mtime > 3 * 3600:
                shutil.rmtree(d, ignore_errors=True)
        bindir.mkdir(parents=True, exist_ok=True)
        tmp = bindir / "redo.new"
        shutil.copy2(tdir / "debug" / "redo", tmp)
        os.replace(tmp, bindir / "redo")
        for t in REDO_TOOLS:
            lnk = bindir / t
            if lnk.is_symlink() or lnk.exists():
                lnk.unlink()
            lnk.symlink_to("redo")
        (bindir / ".ok").write_text(th)
        ensure_shims_unlocked()
        return bindir


def ensure_shims_unlocked():
    sh = VERIF / "shim"
    for out, src in (("crashshim.so", "crashshim.c"), ("vgate", "vgate.c"), ("rvmake", "rvmake.c")):
        o, s_ = sh / out, sh / src
        if s_.exists() and (not o.exists() or o.stat().st_mtime < s_.stat().st_mtime):
            p = subprocess.run(["make", "-C", str(sh), "-s"], stdout=subprocess.PIPE, stderr=subprocess.STDOUT, text=True)
            if p.returncode != 0:
                sys.stderr.write(p.stdout[-2000:])
                raise MachineryError("building the C shims failed")
            return


def ensure_shims():
    """(Re)build shim/crashshim.so and shim/vgate when missing or older than their sources."""
    sh = VERIF / "shim"
    need = False
    for out, src in (("crashshim.so", "crashshim.c"), ("vgate", "vgate.c"), ("rvmake", "rvmake.c")):
        o, s_ = sh / out, sh / src
        if s_.exists() and (not o.exists() or o.stat().st_mtime < s_.stat().st_mtime):
            need = True
    if need:
        CACHE.mkdir(parents=True, exist_ok=True)
        with open(CACHE / "build.lock", "w") as lk:
            fcntl.flock(lk, fcntl.LOCK_EX)
            p = subprocess.run(["make", "-C", str(sh), "-s"], stdout=subprocess.PIPE, stderr=subprocess.STDOUT, text=True)
            if p.returncode != 0:
                sys.stderr.write(p.stdout[-2000:])
                raise MachineryError("building the C shims failed")


def build_harness(quiet=True) -> Path:
    """Build the E4 Rust harness against the current tree; return the binary."""
    CACHE.mkdir(parents=True, exist_ok=True)
    with open(CACHE / "build.lock", "w") as lk:
        fcntl.flock(lk, fcntl.LOCK_EX)
        hdir = VERIF / "harness"
        h = hashlib.sha256(_tree_hash().encode())
        for f in sorted(hdir.rglob("*.rs")) + [hdir / "Cargo.toml"]:
            h.update(f.read_bytes())
        th = h.hexdigest()[:16]
        out = CACHE / f"harness-{th}"
        if out.exists():
            return out
        # the harness depends on the repo by path; VERIF_REPO is honoured through a
        # generated manifest in the cache dir.
        gen = CACHE / "harness-src"
        if gen.exists():
            shutil.rmtree(gen)
        shutil.copytree(hdir, gen, ignore=shutil.ignore_patterns("target"))
        man = (gen / "Cargo.toml").read_text().replace("/repo", str(REPO))
        (gen / "Cargo.toml").write_text(man)
        shutil.copy2(REPO / "Cargo.lock", gen / "Cargo.lock")
        tdir = target_dir("target-harness")
        cmd = ["cargo", "build", "--offline", "--release", "--manifest-path", str(gen / "Cargo.toml"),
               "--target-dir", str(tdir)]
        p = subprocess.run(cmd, env=cargo_env(), stdout=subprocess.PIPE, stderr=subprocess.STDOUT, text=True)
        if p.returncode != 0:
            sys.stderr.write(p.stdout[-6000:])
            raise MachineryError("cargo build of the E4 harness failed")
        for d in CACHE.glob("harness-????????????????"):
            if d.is_file():
                d.unlink()
        tmp = CACHE / f"harness-{th}.new"
        shutil.copy2(tdir / "release" / "rvharness", tmp)
        os.replace(tmp, out)
        return out


# ---------------------------------------------------------------------------
# scratch space and running commands

_scratch_root = None


def scratch_root() -> Path:
    global _scratch_root
    if _scratch_root is None:
        _scratch_root = SHM / f"rv.{os.getpid()}"
        _scratch_root.mkdir(parents=True, exist_ok=True)
        # redo looks for its state directory in every ancestor of a project: a `.redo` above the scratch area would be
        # shared by every scratch project that has none of its own yet (all executions would contend for one database)
        for anc in [_scratch_root] + list(_scratch_root.parents):
            if (anc / ".redo").exists():
                raise MachineryError(f"{anc}/.redo exists: every scratch project below it would use it as its state "
                                     f"directory; remove it (no check creates it: commands that name '/' run in a jail)")
    return _scratch_root


def cleanup_scratch():
    global _scratch_root
    if _scratch_root is not None:
        shutil.rmtree(_scratch_root, ignore_errors=True)
        _scratch_root = None


def base_env(bindir: Path, home: Path) -> dict:
    """A scrubbed environment for every subject command."""
    return {
        "PATH": f"{bindir}:/usr/bin:/bin",
        "LC_ALL": "C",
        "TERM": "dumb",
        "HOME": str(home),
        "TMPDIR": str(home),
    }


def run_cmd(argv, cwd, env, timeout=60, stdin=None):
    """Run a subject command in its own session; returns (rc, stdout, stderr). rc=-999 on watchdog, in which case the
    whole session (every process the command started) is killed, so that a hang found by a check leaves nothing behind."""
    p = subprocess.Popen(argv, cwd=str(cwd), env=env, stdin=subprocess.DEVNULL if stdin is None else subprocess.PIPE,
                         stdout=subprocess.PIPE, stderr=subprocess.PIPE, start_new_session=True)
    try:
        out, err = p.communicate(input=stdin, timeout=timeout)
        return p.returncode, out.decode("utf-8", "replace"), err.decode("utf-8", "replace")
    except subprocess.TimeoutExpired:
        try:
            os.killpg(p.pid, signal.SIGKILL)
        except (ProcessLookupError, PermissionError):
            pass
        try:
            out, err = p.communicate(timeout=10)
        except subprocess.TimeoutExpired:
            p.kill()
            out, err = b"", b""
        return -999, (out or b"").decode("utf-8", "replace"), (err or b"").decode("utf-8", "replace")


_tmp_suffix = {}


def tmp_suffix(bindir=None):
    """What the subject appends to a target's name to make $3 (".redo.tmp" on the pinned tree).  Learned from the binary --
    one throw-away build whose script reports its $3 -- so that a tree which merely calls its temporary files something
    else is not taken for one that leaves them behind.  The properties only say "a temporary path beside the target"."""
    if bindir is None:
        if None in _tmp_suffix:
            return _tmp_suffix[None]
        _tmp_suffix[None] = tmp_suffix(build_subject())
        return _tmp_suffix[None]
    bindir = Path(bindir)
    key = str(bindir)
    if key in _tmp_suffix:
        return _tmp_suffix[key]
    memo = bindir / ".tmpsuffix"
    if memo.exists():
        _tmp_suffix[key] = memo.read_text()
        return _tmp_suffix[key]
    d = Path(tempfile.mkdtemp(prefix="tmpsfx.", dir=str(scratch_root())))
    try:
        (d / "p" / ".redo").mkdir(parents=True)
        (d / "home").mkdir()
        (d / "p" / "probe.do").write_text('printf %s "$3" > ../arg3\n')
        env = base_env(bindir, d / "home")
        env["REDO_LOG"] = "0"
        rc, out, err = run_cmd([str(bindir / "redo"), "probe"], d / "p", env, timeout=60)
        a3 = (d / "arg3").read_text() if (d / "arg3").exists() else ""
        base = os.path.basename(a3)
        if rc != 0 or not base.startswith("probe") or len(base) <= len("probe"):
            raise MachineryError(f"cannot learn the name of $3 from the subject (rc={rc}, $3={a3!r}): {err[-300:]}")
        sfx = base[len("probe"):]
    finally:
        shutil.rmtree(d, ignore_errors=True)
    try:
        memo.write_text(sfx)
    except OSError:
        pass
    _tmp_suffix[key] = sfx
    return sfx


def make_jail(jail, bindir):
    """A directory usable as `/` for subject commands whose arguments name the file-system root (they create /.redo):
    the subject binary and its tool links in /bin, /bin/sh, and the shared objects both need."""
    jail = Path(jail)
    need = set()
    for exe in (str(Path(bindir) / "redo"), "/bin/sh"):
        out = subprocess.run(["ldd", exe], stdout=subprocess.PIPE, text=True).stdout
        for ln in out.splitlines():
            for tok in ln.split():
                if tok.startswith("/") and os.path.exists(tok):
                    need.add(tok)
    for f in need:
        dst = jail / f.lstrip("/")
        dst.parent.mkdir(parents=True, exist_ok=True)
        if not dst.exists():
            shutil.copy2(os.path.realpath(f), dst)
    (jail / "bin").mkdir(parents=True, exist_ok=True)
    shutil.copy2(str(Path(bindir) / "redo"), jail / "bin" / "redo")
    shutil.copy2(os.path.realpath("/bin/sh"), jail / "bin" / "sh")
    for t in REDO_TOOLS:
        if not (jail / "bin" / t).exists():
            (jail / "bin" / t).symlink_to("redo")
    for d in ("tmp", "home", "dev"):
        (jail / d).mkdir(exist_ok=True)
    return jail


def run_jailed(jail, argv, cwd, timeout=60):
    """Run argv (paths as seen inside the jail) chrooted into `jail`, in directory `cwd` (inside).  The jail gets its own
    /proc (redo needs /proc/self/exe) and the real /dev, mounted in a private mount namespace that disappears with the command."""
    (Path(jail) / "proc").mkdir(exist_ok=True)
    env = {"PATH": "/usr/sbin:/usr/bin:/sbin:/bin", "RV_JAIL": str(jail), "RV_CWD": cwd}
    inner = 'cd "$RV_CWD" && PATH=/bin LC_ALL=C TERM=dumb HOME=/home TMPDIR=/tmp exec "$@"'
    outer = 'mount -t proc proc "$RV_JAIL/proc" && mount --bind /dev "$RV_JAIL/dev" && exec chroot "$RV_JAIL" /bin/sh -c \'%s\' sh "$@"' % inner
    return run_cmd(["unshare", "--mount", "--propagation", "private", "sh", "-c", outer, "sh"] + list(argv), "/", env,
                   timeout=timeout)


# ---------------------------------------------------------------------------
# evidence, findings, verdicts

def load_known_findings():
    p = VERIF / "known_findings.json"
    if not p.exists():
        return {"findings": [], "fixed": []}
    return json.loads(p.read_text())


def write_evidence(pid, tier, level, coverage, wall_s, violations, assumptions):
    EVIDENCE_DIR.mkdir(exist_ok=True)
    ev = {
        "property_id": pid,
        "tier": tier,
        "seed": seed(),
        "level": level,
        "coverage": coverage,
        "assumptions": assumptions,
        "wall_s": round(wall_s, 2),
        "violations": violations,
    }
    tmp = EVIDENCE_DIR / f"{pid}.json.tmp"
    tmp.write_text(json.dumps(ev, indent=1, sort_keys=True, default=str) + "\n")
    os.replace(tmp, EVIDENCE_DIR / f"{pid}.json")


def write_replay(pid, name, doc) -> Path:
    REPLAY_DIR.mkdir(exist_ok=True)
    h = hashlib.sha256(json.dumps(doc, sort_keys=True, default=str).encode()).hexdigest()[:10]
    p = REPLAY_DIR / f"{pid}-{name}-{h}.json"
    p.write_text(json.dumps(doc, indent=1, sort_keys=True, default=str) + "\n")
    return p


class Verdict:
    """Collects violations, matches them against known_findings.json, prints lines."""

    def __init__(self, pid):
        self.pid = pid
        self.kf = [f for f in load_known_findings().get("findings", []) if f.get("property") == pid]
        self.violations = []   # (signature dict, replay doc)
        self.known_hits = {}   # finding id -> count
        self.new = []

    def matches(self, finding, sig):
        """A finding matches when every key of its 'match' dict equals the signature's."""
        m = finding.get("match", {})
        for k, v in m.items():
            sv = sig.get(k)
            if isinstance(v, list):
                if sv not in v:
                    return False
            elif sv != v:
                return False
        return True

    def report(self, sig, doc):
        """sig: small dict identifying *what* failed; doc: replay document."""
        for f in self.kf:
            if self.matches(f, sig):
                self.known_hits[f["id"]] = self.known_hits.get(f["id"], 0) + 1
                return False
        self.new.append((sig, doc))
        return True

    def finish(self, max_print=5):
        for f in self.kf:
            if f["id"] in self.known_hits:
                print(f"KNOWN-FINDING: property={self.pid} {f['id']}: {f['what']} "
                      f"(seen {self.known_hits[f['id']]}x this run)")
        seen = set()
        n = 0
        for sig, doc in self.new:
            key = json.dumps(sig, sort_keys=True, default=str)
            if key in seen:
                continue
            seen.add(key)
            if n < max_print:
                doc = dict(doc)
                doc["signature"] = sig
                doc["property"] = self.pid
                path = write_replay(self.pid, str(sig.get("kind", "v")), doc)
                print(f"VIOLATION property={self.pid} replay={path}")
                print(f"  what: {json.dumps(sig, default=str)[:600]}")
            n += 1
        if n > max_print:
            print(f"  (+{n - max_print} further distinct violation signatures not written)")
        return 1 if self.new else 0

    @property
    def count(self):
        return len(self.new)
