"""Engine E4 -- exhaustive input enumeration of exported pure functions of the `redo` crate.

The Rust side is /verif/harness (binary `rvharness`, built by common.build_harness()); this module
drives it over complete finite input domains and provides the *independent* reference
implementations the answers are compared with.  Nothing here samples: every domain is enumerated
completely (itertools.product), and the counts that end up in the evidence are measured.

Wire format (see harness/src/main.rs): request = TAB separated fields, strings as `x<hex of utf-8>`;
answer = one JSON object per line: {"ok":..} | {"err":..} | {"panic":..} | {"proto":..}.
"""
import itertools
import json
import os
import subprocess

from . import common
from .common import MachineryError

_harness = None


def harness_bin():
    global _harness
    if _harness is None:
        _harness = common.build_harness()
    return _harness


def hx(s) -> str:
    if isinstance(s, str):
        s = s.encode("utf-8")
    return "x" + s.hex()


def run_harness(mode, requests, cwd=None, chunk=None):
    """requests: iterable of tuples of fields (str -> hex encoded, int/float -> decimal text,
    ("cd", dir) -> a chdir request).  Returns the list of decoded JSON answers, one per request
    (the answer to a cd request is included, so indices line up)."""
    lines = []
    for r in requests:
        if isinstance(r, str):
            r = (r,)
        if len(r) == 2 and r[0] == "cd" and isinstance(r[1], CdMarker):
            lines.append("cd\t" + hx(r[1].path))
            continue
        fs = []
        for f in r:
            if isinstance(f, (str, bytes)):
                fs.append(hx(f))
            elif isinstance(f, float):
                fs.append(repr(f))
            else:
                fs.append(str(f))
        lines.append("\t".join(fs))
    if not lines:
        return []
    argv = [str(harness_bin()), mode]
    if cwd is not None:
        argv += ["--cwd", str(cwd)]
    p = subprocess.run(argv, input=("\n".join(lines) + "\n").encode("ascii"), stdout=subprocess.PIPE,
                       stderr=subprocess.PIPE, env=common.cargo_env())
    if p.returncode != 0:
        raise MachineryError(f"rvharness {mode} exited {p.returncode}: {p.stderr.decode('utf-8', 'replace')[-500:]}")
    out = p.stdout.decode("utf-8").split("\n")
    if out and out[-1] == "":
        out.pop()
    if len(out) != len(lines):
        raise MachineryError(f"rvharness {mode}: {len(lines)} requests but {len(out)} answers")
    res = []
    for l in out:
        try:
            d = json.loads(l)
        except ValueError:
            raise MachineryError(f"rvharness {mode}: undecodable answer {l[:200]!r}")
        if "proto" in d:
            raise MachineryError(f"rvharness {mode}: protocol error {d['proto']}")
        res.append(d)
    return res


class CdMarker:
    def __init__(self, path):
        self.path = str(path)


def cd(path):
    """A request that changes the harness's working directory."""
    return ("cd", CdMarker(path))


def ans_str(a):
    """Compact, comparable rendering of one harness answer."""
    if "ok" in a:
        return a["ok"]
    if "panic" in a:
        return "PANIC:" + a["panic"]
    if "err" in a:
        return "ERR:" + a["err"]
    return json.dumps(a, sort_keys=True)


# ---------------------------------------------------------------------------
# reference: lexical cleaning
#
# Written from the four rules in Rob Pike, "Lexical File Names in Plan 9 or Getting Dot-Dot
# Right" as restated in the doc comment of redo::normpath (which is also the contract of Go's
# path.Clean):
#   1. replace multiple separators by one            2. drop every "." element
#   3. drop an inner ".." together with the non-".." element before it
#   4. drop ".." elements that begin a rooted path   -- and the empty result is "."
# It works on the list of elements with a stack, not on bytes, so it shares no structure with the
# byte scanner in helpers.rs.
#
# Conventions checked against the normpath_* unit tests in /repo/src/helpers.rs; every one of them
# coincides with Go's path.Clean, so there is NO intentional difference from path.Clean:
#   * a trailing slash is dropped ("abc/" -> "abc", "../" -> "..", "./" -> "."), only the root keeps it;
#   * any run of leading slashes is ONE root ("//abc" -> "/abc", "///abc" -> "/abc").  This differs
#     from Python's os.path.normpath (which preserves exactly two leading slashes, as POSIX permits)
#     -- which is why os.path.normpath is not used as the reference;
#   * "" -> ".";  "/.." -> "/";  leading ".." of a relative path are kept ("abc/../../x" -> "../x").
def ref_clean(path: str) -> str:
    if path == "":
        return "."
    rooted = path[0] == "/"
    stack = []
    for el in path.split("/"):
        if el == "" or el == ".":
            continue                      # rules 1 and 2
        if el == "..":
            if stack and stack[-1] != "..":
                stack.pop()               # rule 3
            elif rooted:
                pass                      # rule 4 (stack is empty here: a rooted path never holds "..")
            else:
                stack.append("..")        # a relative path may climb out
        else:
            stack.append(el)
    body = "/".join(stack)
    if rooted:
        return "/" + body
    return body if body else "."


# ---------------------------------------------------------------------------
# reference: .do search order
#
# From the redo documentation ("redo searches for a.b.c.do, default.b.c.do, default.c.do,
# default.do, then ../default.b.c.do, ../default.c.do, ../default.do, ...") and the C13 statement:
#   <name>.do in the target's directory, then in the target's directory and every ancestor up to
#   the root: default<ext>.do for every extension from the longest to the shortest, then default.do.
#   The script runs in its own directory; $1 = target relative to that directory, $2 = $1 minus ext.
# An "extension" is every suffix of the file name that starts at a dot -- including a dot at
# position 0 (".a" has the extension ".a" and the empty stem) and an empty-looking one ("a." has
# the extension "."), which is what "names with zero to many dots, leading dots" in the quantifier
# exercises.
def ref_dofiles(target: str):
    """target: absolute path (any spelling).  Returns a list of dicts
    {do_dir, do_file, arg1, arg2, ext, base_dir}."""
    t = ref_clean(target)
    assert t.startswith("/") and t != "/"
    parts = t[1:].split("/")
    name = parts[-1]
    dirs = parts[:-1]

    def absdir(n):
        return "/" + "/".join(dirs[:n])

    out = [{"do_dir": absdir(len(dirs)), "do_file": name + ".do", "arg1": name, "arg2": name, "ext": "",
            "base_dir": ""}]
    exts = [name[i:] for i, ch in enumerate(name) if ch == "."]   # longest first
    exts.append("")
    for n in range(len(dirs), -1, -1):      # the target's directory first, the root last
        sub = "/".join(dirs[n:])
        rel = (sub + "/" + name) if sub else name
        for ext in exts:
            out.append({"do_dir": absdir(n), "do_file": "default" + ext + ".do", "arg1": rel,
                        "arg2": rel[:len(rel) - len(ext)] if ext else rel, "ext": ext, "base_dir": sub})
    return out


def harness_dofiles_as_ref(items):
    """Map the harness's DoFile fields to the reference's vocabulary: $1 = base_name+ext, $2 = base_name."""
    return [{"do_dir": d["do_dir"], "do_file": d["do_file"], "arg1": d["base_name"] + d["ext"],
             "arg2": d["base_name"], "ext": d["ext"], "base_dir": d["base_dir"]} for d in items]


# ---------------------------------------------------------------------------
# enumerated domains

def strings_over(alphabet, maxlen):
    """Every string of length 0..maxlen over the alphabet (tokens may be multi-character)."""
    for n in range(maxlen + 1):
        for tup in itertools.product(alphabet, repeat=n):
            yield "".join(tup)


def component_paths(components, maxn):
    """Every sequence of 0..maxn components, rooted or not, with or without a trailing slash."""
    seen = set()
    for n in range(maxn + 1):
        for tup in itertools.product(components, repeat=n):
            body = "/".join(tup)
            for rooted in ("", "/"):
                for trail in ("", "/"):
                    s = rooted + body + trail
                    if s not in seen:
                        seen.add(s)
                        yield s


def lstat_id(path):
    try:
        st = os.lstat(path)
        return (st.st_dev, st.st_ino)
    except OSError:
        return None


def stat_id(path):
    try:
        st = os.stat(path)
        return (st.st_dev, st.st_ino)
    except OSError:
        return None


def shortest(items, n=20, key=lambda x: x):
    """The n shortest (then lexicographically first) items -- used to cap reported violations."""
    return sorted(items, key=lambda x: (len(key(x)), key(x)))[:n]
