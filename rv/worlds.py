"""Declarative build worlds: sources + .do rules generated from node specs.

A world is data; `script_text(spec)` turns a node spec into a shell script that
contains no logic beyond the spec, and refmodel.py evaluates the same spec, so
the implementation and the reference are driven by one description.

Content is structural: a node writes  <name>(<dep1-content><dep2-content>...)
so staleness anywhere below a target is visible in that target's bytes.
`proj` nodes pass their dependencies' content through `tr 1 0` (so the source
values 0 and 1 are identified) -- combined with kind 'csum' (the node pipes its
own output to redo-stamp) this yields edits that re-run the node but leave its
checksum unchanged.
"""
import itertools
from dataclasses import dataclass, field
from typing import Dict, List, Optional, Tuple


@dataclass(frozen=True)
class Spec:
    kind: str = "plain"                 # plain | csum | always
    deps: Tuple[str, ...] = ()          # static redo-ifchange list; '%' stands for $2
    sel: Optional[Tuple[str, Tuple[Tuple[str, Tuple[str, ...]], ...]]] = None  # (selector source, ((value,(deps..)),..))
    ifcreate: Tuple[str, ...] = ()      # watched paths: ifchange when present, ifcreate when absent
    ifcreate_raw: Tuple[str, ...] = ()  # unconditional redo-ifcreate (an error when the path exists)
    raw_prefix: str = ""                # how the script spells those paths: this in front (e.g. "nosuch/../")
    fail: Optional[str] = None          # flag source: script exits 7 when it contains "1"
    out: str = "stdout"                 # stdout | file ($3) | append (two appends to $3: one before the dependencies, one after)
    proj: bool = False                  # map 1->0 in consumed content
    split: bool = False                 # one redo-ifchange per dependency instead of one call
    tag: str = ""                       # distinguishes .do variants with otherwise equal specs
    noise: int = 0                      # >0: write tagged lines to stderr (1: whole+split+long lines, 2: also a record-like line, 4: also an unterminated last line)
    seq: Tuple[Tuple[str, Tuple[str, ...]], ...] = ()   # "driver": commands run in order inside this one script, failures recorded not fatal
    ulimit_n: int = 0                   # the script lowers its limit of open files before it asks for its dependencies (what it starts cannot create pipes)
    fail_late: bool = False             # the failure comes AFTER the output was written (and redo-stamp has run)
    fail_kill: bool = False             # the failure is the script being killed by a signal (kill -KILL $$) instead of exit 7
    fail_undeclared: bool = False       # the fail flag is read without declaring it as a dependency
    post: Tuple[str, ...] = ()          # dependencies requested AFTER the output was written (and redo-stamp has run)
    arg1: str = ""                      # (set by the reference model) $1 of the rule that matched
    tolerant: bool = False              # the script goes on when the redo-ifchange of its static dependencies fails ("!" stands for their content)
    mkdir: bool = False                 # the script creates its target's directory (a rule of a parent directory building into a directory that does not exist yet)
    bursts: bool = False                # (csum, stdout) the data reaches redo-stamp through a pipe in two bursts, the varying part in the second
    wreck: str = ""                     # the script replaces this directory (its target's parent) by a regular file before it writes its output
    redir: bool = False                 # the script redirects the stderr of its redo-ifchange calls into a file of its own
    sync: Tuple[Tuple[str, str, str], ...] = ()   # E2 only: (position start|mid|end, action wait|set, flag) -- scripts that wait for each other

    def rebase(self, do_dir: str, arg1: str = "", canon=None) -> "Spec":
        """names as the reference model uses them: relative to the project root instead of the rule's directory (and, with
        `canon`, through the world's directory symlinks)"""
        import dataclasses
        import posixpath
        if not do_dir and canon is None:
            return dataclasses.replace(self, arg1=arg1) if arg1 else self
        g = canon or (lambda n: n)
        f = lambda n: g(posixpath.normpath(posixpath.join(do_dir, n)) if do_dir else n)
        sel = None
        if self.sel:
            sel = (f(self.sel[0]), tuple((v, tuple(f(d) for d in ds)) for v, ds in self.sel[1]))
        return dataclasses.replace(
            self, deps=tuple(f(d) for d in self.deps), sel=sel, ifcreate=tuple(f(d) for d in self.ifcreate),
            ifcreate_raw=tuple(f(d) for d in self.ifcreate_raw), fail=f(self.fail) if self.fail else None,
            seq=tuple((c, tuple(f(d) for d in ds)) for c, ds in self.seq), post=tuple(f(d) for d in self.post), arg1=arg1)

    def subst(self, arg2: str) -> "Spec":
        import dataclasses
        f = lambda s: s.replace("%", arg2)
        sel = None
        if self.sel:
            sel = (f(self.sel[0]), tuple((v, tuple(f(d) for d in ds)) for v, ds in self.sel[1]))
        return dataclasses.replace(
            self, deps=tuple(f(d) for d in self.deps), sel=sel, ifcreate=tuple(f(d) for d in self.ifcreate),
            ifcreate_raw=tuple(f(d) for d in self.ifcreate_raw), fail=f(self.fail) if self.fail else None,
            seq=tuple((c, tuple(f(d) for d in ds)) for c, ds in self.seq), post=tuple(f(d) for d in self.post))


@dataclass
class World:
    name: str
    sources: Dict[str, List[str]]                 # name -> value alphabet (first = initial); None initial = absent
    rules: Dict[str, List[Spec]]                  # do-file name -> variants (index 0 = initial)
    targets: List[str]                            # buildable names of interest
    requests: List[str]                           # names top-level commands may request
    absent: List[str] = field(default_factory=list)   # sources that start absent
    notes: str = ""
    prefixes: List[list] = field(default_factory=list)  # histories leading to non-initial states the BFS also starts from
    symlinks: Dict[str, str] = field(default_factory=dict)   # user-made symbolic links present from the start: name -> link text

    def to_json(self):
        return {"name": self.name, "sources": self.sources, "rules": {k: [repr(s) for s in v] for k, v in self.rules.items()},
                "targets": self.targets, "requests": self.requests, "absent": self.absent}


def sh_quote(s: str) -> str:
    return "'" + s.replace("'", "'\\''") + "'"


def script_text(spec: Spec, variant: int, dofile: str, gates: bool = False) -> str:
    """Shell text for a node spec. Uses $1/$2/$3 only; cwd is the script's directory.
    With gates=True the script reports work sections and parks at scheduling points through shim/vgate
    (inert without a scheduler): `work-begin`/`work-end` notes delimit the time the script is doing work
    itself (not waiting for a nested redo-ifchange)."""
    L = []
    L.append(f"# rv-generated dofile={dofile} variant={variant} tag={spec.tag}")
    # the target's name relative to the project root (traces, kill points and gates name targets that way; $1 is relative to
    # the rule's directory)
    L.append('rv_n="$1"; if [ -n "${RV_ROOT:-}" ]; then rv_d="${PWD#"$RV_ROOT"}"; rv_d="${rv_d#/}"; rv_n="${rv_d:+$rv_d/}$1"; fi')
    L.append('echo "B $rv_n $REDO_RUNID" >> "$RV_TRACE"')
    if spec.mkdir:
        L.append('mkdir -p "$(dirname "$3")"')
    # interrupted builds (E1 op "kbuild"): when RV_KILL names this target and a position, the script SIGKILLs its whole
    # process group -- the redo processes above it included -- at that position: 0 = start, i = after the i-th
    # dependency group (Model.script_deps order; the last one is "just before the output is written"), e = after the
    # output (and redo-stamp) but before the script exits.  Inert when RV_KILL is unset.
    # RV_KILL=<target>:<pos>:p kills only the redo process that runs this script ($PPID); the orphaned script waits until
    # that process is gone and then carries on to its end.  (The redo processes further up cannot finish before the orphan
    # does: it has inherited the pipes whose end-of-file tells them that their job is over.)
    L.append('rv_t="$rv_n"; rvk() { if [ "${RV_KILL:-}" = "$rv_t:$1" ]; then kill -KILL 0; sleep 30; fi; '
             'if [ "${RV_KILL:-}" = "$rv_t:$1:p" ]; then rv_pp=$PPID; echo "K $rv_t $1" >> "$RV_TRACE"; kill -KILL $rv_pp; '
             'while kill -0 "$rv_pp" 2>/dev/null; do sleep 0.01; done; fi; }')
    L.append('rvk 0')
    g = [0]

    def kp():
        g[0] += 1
        L.append('rvk %d' % g[0])
    if gates:
        L.append('trap \'vgate n "end $rv_n"\' EXIT')
        L.append('vgate n "begin $rv_n"')
        L.append('vgate n "work-begin $rv_n"')
        L.append('vgate p "s:$rv_n"')
    def sync(pos):
        # scripts that wait for each other (scheduled executions only): `set` creates a flag, `wait` parks the script at
        # a gate the scheduler enables once the flag exists -- the scenario's way of saying "this job takes longer than that"
        if not gates:
            return
        for p_, act, flag in spec.sync:
            if p_ != pos:
                continue
            if act == "set":
                L.append(': > "$RV_FLAGS/%s"; vgate n "set:%s $rv_n"' % (flag, flag))
            elif act == "ask":
                # the script parks; before it goes on the harness performs the scenario's environment action of that name
                # (e.g. the user edits a source at exactly this moment), once
                L.append('vgate p "ask:%s $rv_n"' % flag)
            elif act == "sleep":
                L.append('vgate p "sleep:%s $rv_n"' % flag)   # a long piece of work: outlasts that many timer expiries
            else:
                L.append('vgate p "wait:%s $rv_n"' % flag)   # still "working": a slow job keeps its token
    sync("start")
    if spec.kind == "always":
        L.append("redo-always")
    if spec.noise:
        L.append('echo "L $1 1 whole line" >&2')
        L.append('printf "L $1 2 first half-" >&2')
        if gates:
            L.append('vgate p "h:$rv_n"')
        L.append('printf "second half\\n" >&2')
        # one line written in four pieces, a scheduling point after each piece
        for piece in ("L $1 5 p1-", "p2-", "p3-"):
            L.append('printf "%s" >&2' % piece)
            if gates:
                L.append('vgate p "h:$rv_n"')
        L.append('printf "p4\\n" >&2')
        L.append('printf "L $1 3 %s\\n" "$(head -c 20000 /dev/zero | tr \'\\0\' x)" >&2')
        if spec.noise == 2:
            L.append('echo "@@REDO:do:1:1.0000@@ L-$1-fake" >&2')
        if spec.noise == 128:
            # a "do" record with an empty text
            L.append('echo "@@REDO:do:1:1.0000@@ " >&2')
        if spec.noise == 256:
            # a line written in two pieces, the cut in the middle of a multi-byte character (UTF-8 e-acute = \303\251)
            L.append('printf "L $1 9 caf\\303" >&2')
            if gates:
                L.append('vgate p "h:$rv_n"')
            L.append('printf "\\251 ok\\n" >&2')
        if spec.noise == 2048:
            # looks like a "do" record, and its text is nothing a target could be called (a NUL byte)
            L.append('printf "@@REDO:do:1:1.0000@@ \\000x\\n" >&2')
        if spec.noise == 32:
            # looks like a "done" record, but its text is not "<status> <name>"
            L.append('echo "@@REDO:done:1:1.0000@@ oops" >&2')
    if spec.out == "append":
        # legitimate because redo promises that $3 does not exist when the script starts
        L.append('printf "%s(" "$1" >> "$3"')
    deps = [d.replace("%", "$2") for d in spec.deps]

    def ifchange(names):
        q = " ".join('"%s"' % n for n in names)
        rd = ' 2>>"$1.err"' if spec.redir else ""
        core = (f'redo-ifchange {q}{rd} || {{ rc=$?; echo "R $rv_n $rc" >> "$RV_TRACE"; exit $rc; }}')
        if gates:
            return 'vgate n "work-end $rv_n"; ' + core + '; vgate n "work-begin $rv_n"; vgate p "r:$rv_n"'
        return core

    L.append('c=""')
    if spec.ulimit_n:
        L.append('ulimit -n %d' % spec.ulimit_n)
    if spec.noise == 8 and deps:
        # "checking for x... " -- a partial line, and the nested build starts right behind it
        L.append('printf "L $1 7 partial line before the dependencies: " >&2')
    if spec.noise == 64 and deps:
        # the same, and the partial line itself contains the characters a record starts with
        L.append('printf "L $1 7 partial line with @@REDO: in it: " >&2')
    if deps and spec.tolerant:
        # a configure-style probe: `if redo-ifchange x; then use it; else do without`
        q = " ".join('"%s"' % n for n in deps)
        core = 'if redo-ifchange %s; then %s; else echo "R $rv_n $?" >> "$RV_TRACE"; c="$c!"; fi' % (
            q, "; ".join('c="$c$(cat "%s")"' % d for d in deps))
        L.append(('vgate n "work-end $rv_n"; ' + core + '; vgate n "work-begin $rv_n"; vgate p "r:$rv_n"') if gates else core)
        kp()
    elif deps:
        if spec.split:
            for d in deps:
                if spec.noise == 512:
                    # a partial line in front of EVERY nested build: from the second on, other targets' lines lie in between
                    L.append('printf "L $1 7 building %s: " >&2' % d)
                L.append(ifchange([d]))
                kp()
        else:
            L.append(ifchange(deps))
            kp()
        if spec.noise in (8, 64, 512):
            L.append('echo "done" >&2')     # ends the partial line if nothing was written in between
        for d in deps:
            L.append(f'c="$c$(cat "{d}")"')
    if spec.sel:
        selsrc = spec.sel[0].replace("%", "$2")
        L.append(ifchange([selsrc]))
        kp()
        L.append(f'sv=$(cat "{selsrc}")')
        L.append('c="$c[$sv]"')
        L.append('case "$sv" in')
        for v, ds in spec.sel[1]:
            ds = [d.replace("%", "$2") for d in ds]
            body = []
            if ds:
                body.append(ifchange(ds))
                for d in ds:
                    body.append(f'c="$c$(cat "{d}")"')
            body.append(":")
            L.append(f"  {v}) " + "; ".join(body) + " ;;")
        L.append("esac")
        kp()
    for w in spec.ifcreate:
        w = w.replace("%", "$2")
        L.append(f'if [ -e "{w}" ]; then {ifchange([w])}; c="$c$(cat "{w}")"; '
                 f'else redo-ifcreate "{w}" || exit 9; c="$c~"; fi')
        kp()
    for w in spec.ifcreate_raw:
        w = w.replace("%", "$2")
        L.append(f'redo-ifcreate "{spec.raw_prefix}{w}" || {{ rc=$?; echo "R $rv_n $rc" >> "$RV_TRACE"; exit $rc; }}')
        L.append('c="$c~"')
        kp()
    for i, (cmd, names) in enumerate(spec.seq):
        if cmd == "uedit":
            # the user edits a source while this run is under way (names = (source, new content)): a new file moved into place
            L.append('printf %%s "%s" > "%s.rvnew"; mv "%s.rvnew" "%s"; echo "Q $rv_n %d 0" >> "$RV_TRACE"' % (names[1], names[0], names[0], names[0], i))
            continue
        if cmd == "udovar":
            # the user replaces a rule's script while this run is under way (names = (do file, variant number))
            L.append('cp "$RV_VARIANTS/%s.%s" "%s.rvnew"; mv "%s.rvnew" "%s"; echo "Q $rv_n %d 0" >> "$RV_TRACE"' % (names[0], names[1], names[0], names[0], names[0], i))
            continue
        q = " ".join('"%s"' % n.replace("%", "$2") for n in names)
        # "redo-fresh": a redo that is told nothing about the jobserver above it (MAKEFLAGS removed from its environment)
        # "redo-j2": an explicit -j2 inside a script (a jobserver of its own, with the "forced in sub-redo" warning)
        # "make-j2": a `make -j2` in the middle (shim/rvmake: a token pipe of its own, knows nothing of redo) whose one recipe is
        # `+redo-ifchange ...`
        tool = {"ifchange": "redo-ifchange", "redo-fresh": "env -u MAKEFLAGS redo", "redo-j2": "redo -j2",
                "make-j2": "rvmake 2 redo-ifchange"}.get(cmd, "redo")
        core = f'rc=0; {tool} {q} || rc=$?; echo "Q $rv_n {i} $rc" >> "$RV_TRACE"'
        L.append(('vgate n "work-end $rv_n"; ' + core + '; vgate n "work-begin $rv_n"') if gates else core)
    if spec.seq:
        kp()
    def failcheck():
        fl = spec.fail.replace("%", "$2")
        if not spec.fail_undeclared:
            L.append(ifchange([fl]))
            kp()
        we = 'vgate n "work-end $rv_n"; ' if gates else ""
        how = "kill -KILL $$; sleep 5" if spec.fail_kill else "exit 7"
        L.append(f'if [ "$(cat "{fl}")" = 1 ]; then echo "F $rv_n" >> "$RV_TRACE"; {we}{how}; fi')
        kp()
    if spec.fail and not spec.fail_late:
        failcheck()
    sync("mid")
    if spec.wreck:
        L.append('rm -rf "%s"; echo hi > "%s"' % (spec.wreck, spec.wreck))
    if spec.proj:
        L.append("c=$(printf %s \"$c\" | tr 1 0)")
    if spec.out == "file":
        L.append('printf "%s(%s)\\n" "$1" "$c" > "$3"')
        if spec.kind == "csum":
            L.append('redo-stamp < "$3"')
    elif spec.out == "dir":
        # the rule's product is a directory
        L.append('mkdir "$3"')
        L.append('printf "%s(%s)\\n" "$1" "$c" > "$3/data"')
    elif spec.out == "append":
        L.append('printf "%s)\\n" "$c" >> "$3"')
        if spec.kind == "csum":
            L.append('redo-stamp < "$3"')
    else:
        if spec.kind == "csum":
            # stdout variant of a checksummed node: emit, and stamp the same bytes
            L.append('printf "%s(%s)\\n" "$1" "$c"')
            if spec.bursts:
                # a generator that pauses: redo-stamp has read the first burst long before the second is written
                L.append('{ printf "%s(" "$1"; sleep 0.3; printf "%s)\\n" "$c"; } | redo-stamp')
            else:
                L.append('printf "%s(%s)\\n" "$1" "$c" | redo-stamp')
        else:
            L.append('printf "%s(%s)\\n" "$1" "$c"')
    if spec.fail and spec.fail_late:
        failcheck()
    L.append('rvk e')
    if spec.post:
        L.append(ifchange([d.replace("%", "$2") for d in spec.post]))
    sync("end")
    if spec.noise == 1024:
        # nothing but an unterminated line after the nested builds: the script's last output follows their lines directly
        L.append('printf "L $1 6 no newline at the end" >&2')
    elif spec.noise:
        L.append('echo "L $1 4 after dependencies" >&2')
        if spec.noise == 16:
            L.append('printf "L $1 8 bad \\377 byte\\n" >&2')      # a byte that is not UTF-8 (a compiler quoting Latin-1 source)
        if spec.noise == 4:
            L.append('printf "L $1 6 no newline at the end" >&2')   # the script's last output is an unterminated line
    if gates:
        L.append('vgate p "e:$rv_n"')
        L.append('vgate n "work-end $rv_n"')
    L.append('echo "E $rv_n" >> "$RV_TRACE"')
    return "\n".join(L) + "\n"


# ---------------------------------------------------------------------------
# curated worlds, one mechanism each

def S(**kw):
    if "seq" in kw:
        kw["seq"] = tuple((c, tuple(ds)) for c, ds in kw["seq"])
    for k in ("deps", "ifcreate", "ifcreate_raw", "post"):
        if k in kw:
            kw[k] = tuple(kw[k])
    if "sel" in kw and kw["sel"]:
        kw["sel"] = (kw["sel"][0], tuple((v, tuple(ds)) for v, ds in kw["sel"][1]))
    return Spec(**kw)


# worlds whose histories only make sense with an alphabet of their own (what a user can do at all): not for the plans that
# run "every curated world" with the standard alphabet
OWN_ALPHABET = {"ifcreate-under-file"}


def curated() -> Dict[str, World]:
    W = {}
    V3 = ["0", "1", "2"]
    W["chain"] = World(
        "chain", {"s": V3},
        {"top.do": [S(deps=["mid"])], "mid.do": [S(deps=["s"], out="file")]},
        ["top", "mid"], ["top", "mid"],
        prefixes=[[["ifchange", ["top"]], ["edit", "s", "1"]]])   # built, then a source edited: where rebuilds (and kills) start
    W["diamond"] = World(
        "diamond", {"s": V3, "u": ["0", "1"]},
        {"top.do": [S(deps=["a", "b"])], "a.do": [S(deps=["leaf"])], "b.do": [S(deps=["leaf", "u"], out="file")],
         "leaf.do": [S(deps=["s"])]},
        ["top", "a", "b", "leaf"], ["top", "a"])
    W["diamond-csum"] = World(   # a diamond over `data` whose first side records a checksum that hides data's changes
        "diamond-csum", {"src": ["0", "1"]},
        {"top.do": [S(deps=["head", "full"])], "head.do": [S(kind="csum", deps=["data"], proj=True)],
         "full.do": [S(deps=["data"], out="file")], "data.do": [S(deps=["src"])]},
        ["top", "head", "full", "data"], ["top", "head"],
        prefixes=[[["ifchange", ["top"]], ["edit", "src", "1"]]])
    W["csum-mid"] = World(
        "csum-mid", {"s": V3},
        {"top.do": [S(deps=["c"])], "c.do": [S(kind="csum", deps=["s"], proj=True, out="file")]},
        ["top", "c"], ["top", "c"],
        prefixes=[[["ifchange", ["top"]], ["edit", "s", "2"], ["ifchange", ["top"]]],
                  [["ifchange", ["top"]], ["edit", "s", "2"]]])
    W["csum-deep"] = World(
        "csum-deep", {"s": V3, "u": ["0", "1"]},
        {"top.do": [S(deps=["mid", "u"])], "mid.do": [S(deps=["c"], out="file")],
         "c.do": [S(kind="csum", deps=["s"], proj=True)]},
        ["top", "mid", "c"], ["top", "mid", "c"],
        prefixes=[[["ifchange", ["top"]], ["edit", "s", "2"], ["ifchange", ["top"]]]])
    W["csum-two"] = World(
        "csum-two", {"s": V3},
        {"top.do": [S(deps=["c1"])], "c1.do": [S(kind="csum", deps=["c2"], out="file")],
         "c2.do": [S(kind="csum", deps=["s"], proj=True, out="file")]},
        ["top", "c1", "c2"], ["top", "c1"])
    W["csum-two-b"] = World(
        "csum-two-b", {"s": V3},
        {"top.do": [S(deps=["c1"])], "c1.do": [S(kind="csum", deps=["c2"], proj=True, out="file")],
         "c2.do": [S(kind="csum", deps=["s"])]},
        ["top", "c1", "c2"], ["top", "c1"])
    W["csum-kids"] = World(   # a checksummed target with two checksummed dependencies that can both be uncertain in one run
        "csum-kids", {"s": V3, "u": V3},
        {"top.do": [S(deps=["mid"])], "mid.do": [S(kind="csum", deps=["l1", "l2"], out="file")],
         "l1.do": [S(kind="csum", deps=["s"], proj=True)], "l2.do": [S(kind="csum", deps=["u"], proj=True, out="file")]},
        ["top", "mid", "l1", "l2"], ["top", "mid"],
        prefixes=[[["ifchange", ["top"]], ["edit", "s", "1"], ["edit", "u", "1"]],
                  [["ifchange", ["top"]], ["edit", "s", "2"], ["edit", "u", "1"]]])
    W["csum-fan"] = World(
        "csum-fan", {"s": V3},
        {"x.do": [S(deps=["c"])], "y.do": [S(kind="always", deps=["c"])],
         "c.do": [S(kind="csum", deps=["s"], proj=True, out="file")], "all.do": [S(deps=["x", "y"])]},
        ["all", "x", "y", "c"], ["all", "x", "y"])
    W["always"] = World(
        "always", {"s": ["0", "1"]},
        {"top.do": [S(deps=["d1", "d2"])], "d1.do": [S(deps=["a"])], "d2.do": [S(deps=["a", "s"], out="file")],
         "a.do": [S(kind="always", deps=["s"])]},
        ["top", "d1", "d2", "a"], ["top", "d1"])
    W["ifcreate"] = World(
        "ifcreate", {"f": ["0", "1"], "u": ["0", "1"]},
        {"t.do": [S(ifcreate=["f"], deps=["u2"])], "u2.do": [S(deps=["u"])]},
        ["t", "u2"], ["t"], absent=["f"],
        # the watched path was there (and depended on), went away (and is watched for), ...
        prefixes=[[["edit", "f", "0"], ["ifchange", ["t"]], ["rm", "f"], ["ifchange", ["t"]]]])
    W["ifcreate-link"] = World(   # the watched path is a symbolic link whose target does not exist yet (a dangling link is "absent")
        "ifcreate-link", {"f": ["0", "1"], "u": ["0", "1"]},
        {"t.do": [S(ifcreate=["f"], deps=["u2"])], "u2.do": [S(deps=["u"])]},
        ["t", "u2"], ["t"], absent=["f"], symlinks={"f": "f.real"})
    W["ifcreate-raw"] = World(   # (the watched path may also come into existence as a directory)
        "ifcreate-raw", {"f": ["0", "1", "<dir>"], "u": ["0", "1"]},
        {"t.do": [S(ifcreate_raw=["f"], deps=["u"])], "top.do": [S(deps=["t"], out="file")]},
        ["top", "t"], ["top", "t"], absent=["f"])
    W["ifcreate-raw-dots"] = World(   # the same, the watched path spelled through a directory that does not exist (nosuch/../f)
        "ifcreate-raw-dots", {"f": ["0", "1"], "u": ["0", "1"]},
        {"t.do": [S(ifcreate_raw=["f"], raw_prefix="nosuch/../", deps=["u"])], "top.do": [S(deps=["t"], out="file")]},
        ["top", "t"], ["top", "t"], absent=["f"])
    W["ifcreate-under-file"] = World(   # the watched path lies "below" a regular file: it does not exist (and cannot, while that
        # file is there); the user may replace that file by a directory, and then create the watched path in it
        "ifcreate-under-file", {"u": ["0", "<dir>"], "u/x": ["0"], "w": ["0", "1"]},
        {"t.do": [S(ifcreate_raw=["u/x"], deps=["w"])], "top.do": [S(deps=["t"], out="file")]},
        ["top", "t"], ["top", "t"], absent=["u/x"])
    W["always3"] = World(
        "always3", {"s": ["0", "1"]},
        {"top.do": [S(deps=["d1", "d2", "d3"])], "d1.do": [S(deps=["a"])], "d2.do": [S(deps=["a"], out="file")],
         "d3.do": [S(kind="always", deps=["a"])], "a.do": [S(kind="always", deps=["s"], out="file")],
         "other.do": [S(deps=["s"])]},
        ["top", "d1", "d2", "d3", "a", "other"], ["top", "d1", "other"])
    W["dynamic"] = World(
        "dynamic", {"sel": ["A", "B"], "sa": ["0", "1"], "sb": ["0", "1"]},
        {"top.do": [S(sel=("sel", (("A", ("a",)), ("B", ("b",)))))],
         "a.do": [S(deps=["sa"])], "b.do": [S(deps=["sb"], out="file")]},
        ["top", "a", "b"], ["top"],
        prefixes=[[["ifchange", ["top"]], ["edit", "sel", "B"], ["ifchange", ["top"]]],
                  [["ifchange", ["top"]], ["edit", "sa", "1"]]])
    W["default"] = World(
        "default", {"p.src": ["0", "1"], "q.src": ["0", "1"]},
        {"default.x.do": [S(deps=["%.src"])], "top.do": [S(deps=["p.x", "q.x"])],
         "p.x.do": [S(deps=["%.src"], tag="specific", out="file")]},
        ["top", "p.x", "q.x"], ["top", "p.x"], notes="p.x.do starts absent; see dofiles_absent",
        # p.x built by its own rule; and: its own rule removed again and the default rule back in charge (where a
        # re-created p.x.do has to be noticed through the "must not exist" edge recorded by that last build)
        prefixes=[[["dovar", "p.x.do", 0], ["ifchange", ["top"]]],
                  [["dovar", "p.x.do", 0], ["ifchange", ["top"]], ["dorm", "p.x.do"], ["ifchange", ["top"]]]])
    W["takeover"] = World(   # p.x has its own rule, q.x is built by the default rule; removing p.x.do lets the default rule take p.x over
        "takeover", {"s": V3, "u": ["7", "8"]},
        {"default.x.do": [S(deps=["s"])], "top.do": [S(deps=["p.x", "q.x"])], "p.x.do": [S(deps=["s", "u"], tag="specific", out="file")]},
        ["top", "p.x", "q.x"], ["top", "p.x"])
    W["fan3"] = World(   # three dependents of one generated node (the third parent sees it "already checked")
        "fan3", {"s": ["0", "1"]},
        {"top.do": [S(deps=["a", "b", "c"])], "a.do": [S(deps=["leaf"])], "b.do": [S(deps=["leaf"], out="file")],
         "c.do": [S(deps=["leaf"])], "leaf.do": [S(deps=["s"])]},
        ["top", "a", "b", "c", "leaf"], ["top", "c"])
    W["shared-src"] = World(   # two targets that share a source and are asked for in SEPARATE runs: the run that rebuilds the
        # first one re-stamps the source; the second one must still find out that it is older than that
        "shared-src", {"s": ["0", "1"]},
        {"u.do": [S(deps=["s"])], "t.do": [S(deps=["s"], out="file")], "w.do": [S(deps=["u"])]},
        ["u", "t", "w"], ["u", "t", "w"],
        prefixes=[[["ifchange", ["u"]], ["ifchange", ["t"]]], [["ifchange", ["w"]], ["ifchange", ["t"]], ["edit", "s", "1"], ["ifchange", ["u"]]]])
    W["csum-toggle"] = World(   # a target that starts / stops / resumes recording a checksum
        "csum-toggle", {"s": ["0", "2"]},
        {"top.do": [S(deps=["mid"])],
         "mid.do": [S(kind="csum", deps=["s"], out="file"), S(deps=["s"], out="file", tag="nostamp")]},
        ["top", "mid"], ["top"],
        prefixes=[[["ifchange", ["top"]], ["dovar", "mid.do", 1], ["edit", "s", "2"], ["ifchange", ["top"]], ["dovar", "mid.do", 0]],
                  [["dovar", "mid.do", 1], ["ifchange", ["top"]], ["dovar", "mid.do", 0], ["edit", "s", "2"], ["ifchange", ["top"]]]])
    W["dovar"] = World(
        "dovar", {"s": ["0", "1"], "u": ["0", "1"]},
        {"top.do": [S(deps=["m"])], "m.do": [S(deps=["s"]), S(deps=["u"], tag="v1"), S(deps=["s", "u"], tag="v2", out="file")]},
        ["top", "m"], ["top", "m"],
        prefixes=[[["ifchange", ["top"]], ["dovar", "m.do", 1], ["ifchange", ["top"]]],
                  # m built with two dependencies, its file removed, its script reduced to one dependency, rebuilt through top
                  [["dovar", "m.do", 2], ["ifchange", ["top"]], ["rm", "m"], ["dovar", "m.do", 0], ["ifchange", ["top"]]]])
    W["chain-append"] = World(   # scripts that build $3 by appending, partly before their dependencies are requested
        "chain-append", {"s": V3},
        {"top.do": [S(deps=["mid"], out="append")], "mid.do": [S(deps=["s"], out="append")]},
        ["top", "mid"], ["top", "mid"],
        prefixes=[[["ifchange", ["top"]], ["edit", "s", "1"]]])
    W["autodir"] = World(   # a rule of the parent directory builds into a directory that does not exist before the first build;
        # later a rule of higher priority appears inside that directory (out/default.txt.do, out/x.txt.do), and goes again
        "autodir", {"s": ["0", "1"]},
        {"default.txt.do": [S(deps=["s"], mkdir=True, out="file")], "out/default.txt.do": [S(deps=["../s"], tag="inner")],
         "out/x.txt.do": [S(deps=["../s"], tag="own", out="file")], "top.do": [S(deps=["out/x.txt"])]},
        ["top", "out/x.txt"], ["top", "out/x.txt"])
    W["tolerant"] = World(   # a script that goes on without a dependency whose build fails (and must be rebuilt once it can be had)
        "tolerant", {"s": V3, "flag": ["0", "1"]},
        {"top.do": [S(deps=["t"])], "t.do": [S(deps=["c"], tolerant=True, out="file")], "c.do": [S(deps=["s"], fail="flag")]},
        ["top", "t", "c"], ["top", "t"],
        prefixes=[[["ifchange", ["top"]], ["edit", "flag", "1"], ["redo", ["t"]]]])
    W["tolerant-csum"] = World(   # the same with a checksummed dependency, whose checksum after the repair is what it was before
        "tolerant-csum", {"s": V3, "flag": ["0", "1"]},
        {"top.do": [S(deps=["t"])], "t.do": [S(deps=["c"], tolerant=True, out="file")],
         "c.do": [S(kind="csum", deps=["s"], fail="flag", proj=True, out="file")]},
        ["top", "t", "c"], ["top", "t"],
        prefixes=[[["ifchange", ["top"]], ["edit", "flag", "1"], ["redo", ["t"]]]])
    W["linkdir"] = World(   # a target behind a user-made symbolic link to a directory, requested through the link
        "linkdir", {"src": ["0", "1"]},
        {"top.do": [S(deps=["lib/gen"])], "shared/gen.do": [S(deps=["../src"], out="file")]},
        ["top", "shared/gen"], ["top", "lib/gen"], symlinks={"lib": "shared"})
    W["csum-fail-late"] = World(   # a checksummed node whose script fails AFTER it has written its output and run redo-stamp
        "csum-fail-late", {"s": ["0", "1", "2"], "flag": ["0", "1"]},
        {"top.do": [S(deps=["c"])], "c.do": [S(kind="csum", deps=["s"], fail="flag", fail_late=True, proj=True, out="file")]},
        ["top", "c"], ["top", "c"],
        prefixes=[[["ifchange", ["top"]], ["edit", "s", "2"], ["edit", "flag", "1"], ["ifchange", ["top"]], ["edit", "s", "0"]]])
    W["csum-burst"] = World(   # the checksummed node's data reaches redo-stamp through a pipe, in two bursts
        "csum-burst", {"s": V3},
        {"top.do": [S(deps=["c"])], "c.do": [S(kind="csum", deps=["s"], bursts=True)]},
        ["top", "c"], ["top", "c"],
        prefixes=[[["ifchange", ["top"]], ["edit", "s", "2"]]])
    W["csum-append"] = World(   # a checksummed node that builds $3 by appending (C10: stale temporary output + redo-stamp)
        "csum-append", {"s": V3},
        {"top.do": [S(deps=["mid"])], "mid.do": [S(kind="csum", deps=["s"], out="append", proj=True)]},
        ["top", "mid"], ["top", "mid"])
    W["fail"] = World(
        "fail", {"s": ["0", "1"], "flag": ["0", "1"]},
        {"top.do": [S(deps=["m", "h"])], "m.do": [S(deps=["s"], fail="flag")], "h.do": [S(deps=["s"], out="file")]},
        ["top", "m", "h"], ["top", "m"])
    W["csum-fail"] = World(   # a checksummed node that can fail: after the failure is repaired its checksum is what it was
        "csum-fail", {"s": ["0", "1", "2"], "flag": ["0", "1"]},
        {"top.do": [S(deps=["c"])], "c.do": [S(kind="csum", deps=["s"], fail="flag", proj=True, out="file")]},
        ["top", "c"], ["top", "c"],
        prefixes=[[["ifchange", ["top"]], ["edit", "flag", "1"], ["ifchange", ["top"]]],
                  [["ifchange", ["top"]], ["edit", "flag", "1"], ["redo", ["c"]]]])
    return W


# which .do files start absent (can be created by an action)
DOFILES_ABSENT = {"default": ["p.x.do"], "autodir": ["out/default.txt.do", "out/x.txt.do"]}


# ---------------------------------------------------------------------------
# generated family: all rooted DAGs with <= 3 targets over <= 2 sources, kinds in {plain,csum,always}

def generated(max_targets=3, kinds=("plain", "csum", "always")) -> Dict[str, World]:
    out = {}
    names = ["t0", "t1", "t2"]
    srcs = ["s0", "s1"]
    for n in range(1, max_targets + 1):
        tn = names[:n]
        # dependencies only go from lower index to higher index or to sources (acyclic by construction)
        choices = []
        for i in range(n):
            cands = tn[i + 1:] + srcs
            subsets = []
            for r in range(1, min(len(cands), 2) + 1):
                subsets += list(itertools.combinations(cands, r))
            choices.append(subsets)
        for depsets in itertools.product(*choices):
            # rooted: every target reachable from t0
            reach = {"t0"}
            frontier = ["t0"]
            while frontier:
                x = frontier.pop()
                for d in depsets[tn.index(x)]:
                    if d in tn and d not in reach:
                        reach.add(d)
                        frontier.append(d)
            if reach != set(tn):
                continue
            used_srcs = sorted({d for ds in depsets for d in ds if d in srcs})
            if used_srcs and used_srcs[0] != "s0":
                continue  # symmetry: s1 alone is the same as s0 alone
            for ks in itertools.product(kinds, repeat=n):
                if ks[0] != "plain":
                    continue  # the root's kind is unobservable from above; keep plain
                rules = {}
                for i, t in enumerate(tn):
                    rules[t + ".do"] = [Spec(kind=ks[i], deps=tuple(depsets[i]), proj=(ks[i] == "csum"),
                                             out="file" if i % 2 else "stdout")]
                key = "g%d-" % n + "-".join("%s%s:%s" % (t, ks[i][0], "".join(d[0] + d[-1] for d in depsets[i]))
                                            for i, t in enumerate(tn))
                out[key] = World(key, {s: ["0", "1", "2"] for s in used_srcs}, rules, list(tn),
                                 [tn[0]] + ([tn[-1]] if n > 1 else []))
    return out
