//! rvharness <subcommand> [--cwd DIR]
//!
//! One request per line on stdin, one JSON answer per line on stdout.
//!
//! Request encoding: fields separated by TAB.  A string field is `x` followed
//! by the lower-case hex of its UTF-8 bytes (`x` alone is the empty string);
//! numeric fields are plain decimal text.  In every mode a line `cd<TAB>x<hex>`
//! changes the process working directory and answers {"cd":"ok"} or {"err":..}.
//!
//! subcommands (argv[1]):
//!   normpath     <p>                 -> {"ok": "<normpath(p)>"}
//!   relpath      <t> <base>          -> {"ok": "<relpath(t, base)>"} | {"err": msg}
//!   realdirpath  <t>                 -> {"ok": "<verif_realdirpath(t)>"} | {"err": msg}
//!   abspath      <cwd> <p>           -> {"ok": "<abs_path(cwd, p)>"}
//!   dofiles      <absolute target>   -> {"ok": [{"do_dir","do_file","base_dir","base_name","ext"},...]}
//!   meta         <kind> pid ts <text>-> {"line": Display, "parsed": {"kind","pid","ts","text","done":[rc,name]|null} | null, "perr": msg|null}
//!   metaparse    <line>              -> {"parsed": ...|null, "perr": ...}
//!
//! A panic inside the library for one request is answered {"panic": msg}; the
//! process carries on with the next request.
use std::ffi::OsStr;
use std::io::{self, BufRead, Write};
use std::os::unix::ffi::OsStrExt;
use std::panic::{self, AssertUnwindSafe};
use std::path::{Path, PathBuf};

fn unhex(f: &str) -> Result<Vec<u8>, String> {
    let h = f.strip_prefix('x').ok_or_else(|| format!("field {:?} lacks the x prefix", f))?;
    if h.len() % 2 != 0 {
        return Err(format!("odd hex length in {:?}", f));
    }
    let b = h.as_bytes();
    let mut out = Vec::with_capacity(b.len() / 2);
    for i in (0..b.len()).step_by(2) {
        let s = std::str::from_utf8(&b[i..i + 2]).map_err(|e| e.to_string())?;
        out.push(u8::from_str_radix(s, 16).map_err(|e| e.to_string())?);
    }
    Ok(out)
}

fn field_str(f: &str) -> Result<String, String> {
    String::from_utf8(unhex(f)?).map_err(|e| e.to_string())
}

/// JSON string literal.  Bytes that are not valid UTF-8 are an error of the
/// harness protocol (all enumerated inputs are UTF-8), flagged with U+FFFD.
fn js(b: &[u8]) -> String {
    let s = String::from_utf8_lossy(b);
    let mut o = String::with_capacity(s.len() + 2);
    o.push('"');
    for c in s.chars() {
        match c {
            '"' => o.push_str("\\\""),
            '\\' => o.push_str("\\\\"),
            c if (c as u32) < 0x20 || c as u32 == 0x7f => o.push_str(&format!("\\u{:04x}", c as u32)),
            c => o.push(c),
        }
    }
    o.push('"');
    o
}

fn jp(p: &Path) -> String {
    js(p.as_os_str().as_bytes())
}

fn jo(s: &OsStr) -> String {
    js(s.as_bytes())
}

fn parsed_json(r: Result<redo::logs::Meta, redo::logs::MetaParseError>) -> String {
    match r {
        Ok(m) => {
            let done = match m.done_text() {
                Some((rc, name)) => format!("[{},{}]", rc, js(name.as_bytes())),
                None => String::from("null"),
            };
            // {:?} of an f64 is the shortest text that parses back to the same double.
            format!(
                "\"parsed\":{{\"kind\":{},\"pid\":{},\"ts\":{},\"ts_repr\":{},\"text\":{},\"done\":{}}},\"perr\":null",
                js(m.kind().as_bytes()),
                m.pid().as_raw(),
                if m.timestamp().is_finite() { format!("{:?}", m.timestamp()) } else { String::from("null") },
                js(format!("{:?}", m.timestamp()).as_bytes()),
                js(m.text().as_bytes()),
                done
            )
        }
        Err(e) => format!("\"parsed\":null,\"perr\":{}", js(e.to_string().as_bytes())),
    }
}

fn answer(mode: &str, fields: &[&str]) -> Result<String, String> {
    let need = |n: usize| -> Result<(), String> {
        if fields.len() == n {
            Ok(())
        } else {
            Err(format!("{} expects {} fields, got {}", mode, n, fields.len()))
        }
    };
    match mode {
        "normpath" => {
            need(1)?;
            let p = unhex(fields[0])?;
            let p = Path::new(OsStr::from_bytes(&p));
            Ok(format!("{{\"ok\":{}}}", jp(&redo::normpath(p))))
        }
        "abspath" => {
            need(2)?;
            let c = unhex(fields[0])?;
            let p = unhex(fields[1])?;
            let r = redo::abs_path(Path::new(OsStr::from_bytes(&c)), Path::new(OsStr::from_bytes(&p)));
            Ok(format!("{{\"ok\":{}}}", jp(&r)))
        }
        "relpath" => {
            need(2)?;
            let t = unhex(fields[0])?;
            let b = unhex(fields[1])?;
            match redo::relpath(Path::new(OsStr::from_bytes(&t)), Path::new(OsStr::from_bytes(&b))) {
                Ok(p) => Ok(format!("{{\"ok\":{}}}", jp(&p))),
                Err(e) => Ok(format!("{{\"err\":{}}}", js(e.to_string().as_bytes()))),
            }
        }
        "realdirpath" => {
            need(1)?;
            let t = unhex(fields[0])?;
            match redo::verif_realdirpath(Path::new(OsStr::from_bytes(&t))) {
                Ok(p) => Ok(format!("{{\"ok\":{}}}", jp(&p))),
                Err(e) => Ok(format!("{{\"err\":{}}}", js(e.to_string().as_bytes()))),
            }
        }
        "dofiles" => {
            need(1)?;
            let t = unhex(fields[0])?;
            let t = PathBuf::from(OsStr::from_bytes(&t));
            let mut items = Vec::new();
            for df in redo::possible_do_files(&t) {
                let (base_dir, base_name, ext) = df.verif_parts();
                items.push(format!(
                    "{{\"do_dir\":{},\"do_file\":{},\"base_dir\":{},\"base_name\":{},\"ext\":{}}}",
                    jp(df.do_dir()),
                    jo(df.do_file()),
                    jp(base_dir),
                    jp(base_name),
                    jo(ext)
                ));
                if items.len() > 10_000 {
                    return Err(String::from("possible_do_files yielded more than 10000 items"));
                }
            }
            Ok(format!("{{\"ok\":[{}]}}", items.join(",")))
        }
        "meta" => {
            need(4)?;
            let kind = field_str(fields[0])?;
            let pid: i32 = fields[1].parse().map_err(|e| format!("pid: {}", e))?;
            let ts: f64 = fields[2].parse().map_err(|e| format!("ts: {}", e))?;
            let text = field_str(fields[3])?;
            let m = redo::logs::Meta::verif_new(&kind, pid, ts, &text);
            let line = format!("{}", m);
            Ok(format!("{{\"line\":{},{}}}", js(line.as_bytes()), parsed_json(redo::logs::Meta::parse(&line))))
        }
        "metaparse" => {
            need(1)?;
            let line = field_str(fields[0])?;
            Ok(format!("{{{}}}", parsed_json(redo::logs::Meta::parse(&line))))
        }
        _ => Err(format!("unknown subcommand {:?}", mode)),
    }
}

fn main() {
    let args: Vec<String> = std::env::args().collect();
    if args.len() < 2 {
        eprintln!("usage: rvharness normpath|abspath|relpath|realdirpath|dofiles|meta|metaparse [--cwd DIR]");
        std::process::exit(2);
    }
    let mode = args[1].clone();
    let mut i = 2;
    while i < args.len() {
        if args[i] == "--cwd" && i + 1 < args.len() {
            if let Err(e) = std::env::set_current_dir(&args[i + 1]) {
                eprintln!("rvharness: cannot chdir to {}: {}", args[i + 1], e);
                std::process::exit(2);
            }
            i += 2;
        } else {
            eprintln!("rvharness: unknown argument {:?}", args[i]);
            std::process::exit(2);
        }
    }
    // panics are answered in-band; keep stderr quiet
    panic::set_hook(Box::new(|_| {}));
    let stdin = io::stdin();
    let stdout = io::stdout();
    let mut out = io::BufWriter::with_capacity(1 << 16, stdout.lock());
    for line in stdin.lock().lines() {
        let line = match line {
            Ok(l) => l,
            Err(e) => {
                eprintln!("rvharness: read error: {}", e);
                std::process::exit(2);
            }
        };
        let fields: Vec<&str> = line.split('\t').collect();
        let ans = if fields[0] == "cd" {
            match fields.get(1).map(|f| unhex(f)) {
                Some(Ok(d)) => match std::env::set_current_dir(Path::new(OsStr::from_bytes(&d))) {
                    Ok(()) => String::from("{\"cd\":\"ok\"}"),
                    Err(e) => format!("{{\"err\":{}}}", js(e.to_string().as_bytes())),
                },
                _ => String::from("{\"proto\":\"bad cd request\"}"),
            }
        } else {
            match panic::catch_unwind(AssertUnwindSafe(|| answer(&mode, &fields))) {
                Ok(Ok(s)) => s,
                Ok(Err(e)) => format!("{{\"proto\":{}}}", js(e.as_bytes())),
                Err(payload) => {
                    let msg = if let Some(s) = payload.downcast_ref::<&str>() {
                        s.to_string()
                    } else if let Some(s) = payload.downcast_ref::<String>() {
                        s.clone()
                    } else {
                        String::from("(non-string panic payload)")
                    };
                    format!("{{\"panic\":{}}}", js(msg.as_bytes()))
                }
            }
        };
        if writeln!(out, "{}", ans).is_err() {
            std::process::exit(2);
        }
    }
    let _ = out.flush();
}
