#!/usr/bin/env python3
"""Regenerates MANIFEST.json from the table below (keeps it valid at all times)."""
import json
from pathlib import Path

V = Path(__file__).resolve().parent
props = [json.loads(l) for l in open(V / "properties.jsonl")]

CHECKS = {
    "C01": dict(engine="E1", category="model_checking", design_ref="DESIGN.md §4 C01",
                technique="explicit-state BFS over operation histories executed on the real binary, from-scratch evaluation oracle",
                text="Every history up to depth d (quick 3, thorough 4-5) of build commands, source edits/touches, target removals and .do switches "
                     "over the curated worlds (thorough: plus all rooted DAGs with <=3 targets) is executed on the real binary; after every exit-0 "
                     "build the requested closure is compared with an independent from-scratch evaluation. In some worlds the alphabet also contains "
                     "interrupted builds (redo-ifchange killed, whole tree, when a chosen script reaches a chosen position; at most one kill per history). "
                     "Exhaustive within the stated bound; nothing is sampled. Worlds also cover rules of parent directories building into directories that do not exist yet (world autodir) and scripts that go on without a dependency whose build failed (worlds tolerant, tolerant-csum).",
                note="Trusted: kernel/sh/SQLite semantics, the reference evaluator (60 lines), the canonical-key argument of DESIGN.md appendix C. "
                     "Graphs beyond the listed worlds and histories beyond depth d are not covered."),
    "C02": dict(engine="E1", category="model_checking", design_ref="DESIGN.md §4 C02",
                technique="explicit-state BFS over operation histories on the real binary; executed-script multiset vs reference build simulation",
                text="Same bounded history space as C01; for every build command the multiset of executed .do scripts (append-only trace written by the "
                     "generated scripts) must equal the reference simulation that tracks, per target, the versions of the dependencies seen at its last "
                     "successful build (incl. its .do file and absent higher-priority candidates); each script at most once. Also: interrupted builds (kill points inside "
                     "scripts) and hand edits of generated files as operations of the history. Exhaustive within depth d. Same additional worlds as C01 (autodir, tolerant).",
                note="Reference model (rv/refmodel.py) is trusted; three documented slack rules (S1,S2,S3: a target whose build was interrupted may be re-run) follow the observation. -j1 only; parallel runs are C07."),
    "C03": dict(engine="E1", category="model_checking", design_ref="DESIGN.md §4 C03",
                technique="explicit-state BFS over operation histories on worlds with checksummed nodes; cut-off/forwarding vs reference simulation",
                text="All histories <= d (quick 3, thorough 4-5) over worlds with a redo-stamp node at depth 1..3, two in series and one with plain+always "
                     "dependents, with edits that do and do not alter the stamped bytes; executed set must equal the reference (no dependent runs after an "
                     "unchanged checksum; every dependent runs in the same command after a changed one) and contents must equal the from-scratch evaluation. "
                     "The run fails as vacuous unless all four quadrants (changed/unchanged x in-band/out-of-band) were exercised. One world feeds redo-stamp through a pipe in two bursts (csum-burst). Another has a checksummed node that fails after it has run redo-stamp (csum-fail-late).",
                note="Trusted: reference model; flat worlds; -j1."),
    "C04": dict(engine="E3 (observe mode) + behaviour matrix", category="fault_enumeration", design_ref="DESIGN.md §4 C04",
                technique="exhaustive enumeration of script behaviours x sizes x prior states, target observed at every state-changing libc call boundary of every redo process",
                text="The full product of script behaviours stdout {none, data} x $3 {untouched, empty, written, written-then-deleted, appended} x $1 {untouched, written, written with "
                     "an older mtime} x end {exit 0, exit 5, SIGKILL / SIGTERM in mid-output} x output sizes {1, 4096, 70000} x prior target state {absent, previously generated, "
                     "and both again with a temporary file left behind by a killed build} is built under an "
                     "LD_PRELOAD shim that stops every redo process before each state-changing libc call; at every such instant the target is absent-as-before, the "
                     "complete old bytes or the complete new bytes; final bytes, exit status (206/207/script's own), no *.redo.tmp left, and redo's only mutation of "
                     "the target path is one rename(tmp->target) after status 0 or one unlink in the no-output case. Plus pairs of targets built by one command (nested, one after the other, -j2 with forced overlap) whose names share a stem (foo.a/foo.b, foo/foo.x, a.b.c/a.b.d, x.redo/x): each becomes exactly what its own script wrote to its own $3.",
                note="Atomicity is judged at libc-call granularity of redo processes (rename(2) itself is atomic by contract). The shim's call coverage was cross-checked "
                     "against strace -f (rv/e3.py self-test). Stores through SQLite's mmap'ed wal-index cannot be intercepted and are not in the property's list."),
    "C05": dict(engine="E1 (+E2 for -j2, see C09)", category="model_checking", design_ref="DESIGN.md §4 C05",
                technique="exhaustive enumeration of command lines / dependency lists x fail points x -k as multi-run histories on the real binary, reference-simulation oracle",
                text="World {f fails iff flag, g->f, h independent, i->h}. Every ordered selection of <=3 of {f,g,h,i} as the argument list of redo-ifchange, "
                     "of redo, and as the redo-ifchange list inside all.do, with and without keep-going, failing at the first build or at a later rebuild; "
                     "each as the history build / build again / repair / build. Every build step is judged: exit status, executed set == reference "
                     "(failed target retried next run, never twice in a run, dependents not treated as up to date), -k builds every buildable requested "
                     "target, no `do` record after a non-zero `done` within a process, contents after exit 0. At -j1 no sibling is started after a failing target without --keep-going (the reference's earlier slack S2 is withdrawn).",
                note="Serial (-j1) enumeration is complete for this world and list length <=3; other graph shapes are covered only through C01/C02's fail world. "
                     "Second family: driver scripts run every sequence of <=3 redo / redo-ifchange commands inside ONE run. Parallel half (E2): redo -j2 [-k] "
                     "with the failing leaf, every schedule with <= b deviations; and a second invocation whose first target is locked by another invocation "
                     "while its second target fails (it must not go on to build the first)."),
    "C06": dict(engine="E2", category="model_checking", design_ref="DESIGN.md §4 C06, appendix A",
                technique="stateless model checking of 2-3 concurrent real invocations under a controlled scheduler; interval-overlap and commit-before-handover oracle on the event order",
                text="Two or three top-level invocations contending for one target, for a shared dependency, redo against redo-ifchange, and an invocation that takes an error "
                     "exit while its job is still running; every schedule with <= b deviations (quick 1, thorough 2-3) at lock try/wait/unlock, transaction begin, event loop, fork "
                     "hand-over, token pipe and script gates; plus the out-of-band (redo-unlocked) rebuild against a second invocation, and an environment player that "
                     "SIGKILLs a whole invocation tree at any step while a second invocation wants the same targets (the survivor must exit 0 with correct contents); "
                     "and two invocations that reach one file through two names of its directory (a symbolic link). "
                     "From the scheduler's total event order: begin/end of one target's script never overlap; between a script's end and "
                     "the next acquisition of that target's lock there is a record-begin followed by COMMIT from the recording process; every finished execution is recorded. Also: a source edited by the harness at a script-chosen instant while the out-of-band rebuild runs and a second invocation waits (S8); two forced `redo x` (built / never built): nobody's output is taken for the user's, both forced builds run, built targets are recorded as generated. S11: the user sends SIGTERM to the shell of one script of a -j2 build while a second invocation wants the other job's target.",
                note="Script begin/end come from the generated scripts (trap EXIT). SIGKILL of an invocation's parent only (kernel frees fcntl locks of a dead owner while its "
                     "script survives) is outside these scenarios and is not claimed."),
    "C07": dict(engine="E2", category="model_checking", design_ref="DESIGN.md §4 C07, appendix A",
                technique="stateless model checking of one parallel invocation under a controlled scheduler; differential oracle against the serial run",
                text="One invocation at -j2/-j3 on graphs with shared nodes (diamond, 3-fan over a shared leaf, two targets over a shared chain in every command-line order "
                     "= every --shuffle outcome, shared checksummed node on a rebuild, a shared target that stopped recording a checksum, shared redo-always node); every schedule with <= b deviations (quick 1, thorough 2). "
                     "No script starts twice; exit status, every file's content, the set of built targets and the canonical database state (flags, csum, stamp class, which "
                     "run-id columns are set, dependency edges) equal the serial run's. --shuffle is enumerated through a hook (REDO_VERIF_SHUFFLE=k selects the k-th permutation of every list): all 24 permutations of lists of <= 4 names with repeated entries, redo and redo-ifchange, fresh and rebuild, -j1 and free-running -j2. 'At most once per run' is judged absolutely (not against the serial run of the same binary); two jobs asking for one file through two names of its directory; two jobs that go on without a shared dependency that fails.",
                note="The shuffle permutation hook of the design was replaced by enumerating the command-line orders explicitly (same set of orders). Graph sizes as listed."),
    "C08": dict(engine="E2 + harness as jobserver parent", category="model_checking", design_ref="DESIGN.md §4 C08, appendix A",
                technique="stateless model checking with the harness owning the GNU-make token pipe; token-conservation and concurrency-limit oracle on the event order",
                text="Own mode (redo -jN: 3-fan, fan plus sibling, failing fan, error exit) and inherited mode (the harness creates the token pipe with N-1 tokens and the cheat "
                     "pipe and passes them via MAKEFLAGS/REDO_CHEATFDS; in the *-make-competes scenarios it also takes and returns tokens), with and without log capture (real redo-log "
                     "follower in the scheduled tree), including two scenarios built so that the followed sub-redo has to CHEAT (token starvation while it waits for a lock: it "
                     "then finds the target up to date, or builds it itself with the borrowed token); every schedule with <= b "
                     "deviations (quick 1, thorough 2). Peak number of scripts inside work sections <= N (+1 only after a cheat grant); toplevel self-check and hook-reported "
                     "counts equal N; inherited pipe holds exactly N-1 tokens and the cheat pipe is empty after all processes exited, on success, failure and error exit. Also a parent that is a real GNU make (MAKEFLAGS only, no cheat pipe) including a redo whose only job waits for a target held by an independent redo; an explicit -j1 / -j2 and a MAKEFLAGS-less redo started from inside a script after a cheat. Tokens of any byte value (NUL, '+'); a sub-redo that cannot start its job for want of file descriptors; failing builds under a real make parent.",
                note="Evidence reports the distinct ready-sets seen at event-loop wake-ups and how many executions granted a cheat token (a run where that is 0 has not "
                     "exercised cheating). Scripts in the cheat scenarios wait for each other through scheduler-visible flags (Spec.sync), which makes the contention the default schedule."),
    "C09": dict(engine="E2", category="model_checking", design_ref="DESIGN.md §4 C09, appendix A",
                technique="stateless model checking of the real process tree under a controlled scheduler, iterative deviation bounding",
                text="Every schedule with <= b deviations (quick b=1, thorough b=2) from the default policy is executed on the real binary, one process running "
                     "at a time between feature-guarded gates (event-loop wake-ups with the exact ready set, token/cheat pipe reads and writes, lock try/wait/unlock, "
                     "fork hand-overs, select! order, script gates). Scenarios: sub-redo with three children plus a sibling job at -j2/-j3, two top-level invocations on "
                     "one target (two deviations already in the quick tier), the same target under two spellings, two sub-redos wanting each other's targets, diamond/fan at -j2/-j3, a failing fan, "
                     "token cheating under log capture, and a minute-long wait for a token (80 polling intervals in virtual time). Oracle on every "
                     "execution: no panic / exit 101, no deadlock, no livelock, termination, exit 0 when all scripts succeed. Also a script that replaces its target's directory by a file while a sibling job runs. Unscheduled part: nine commands run with stdout/stderr being pipes without a reader (EPIPE) -- no abort, no death by signal.",
                note="Interleavings inside an SQLite immediate transaction and inside the kernel are not distinguished; time in the jobserver is virtual; at most 2 "
                     "top-level invocations and the listed graphs; schedules beyond the deviation bound are not covered."),
    "C10": dict(engine="E3", category="fault_enumeration", design_ref="DESIGN.md §4 C10, appendix D",
                technique="exhaustive crash-point enumeration: SIGKILL before every state-changing libc call of every redo process, then recovery history and oracle",
                text="For worlds chain, csum-mid, chain-append (quick) plus default and dynamic (thorough), pre-states {first build, incremental rebuild after an edit that keeps / that changes "
                     "a checksum, rebuild after the target was removed, rebuild after a hand edit was noticed and the file removed}, scopes {that process only, "
                     "whole tree}: the build is killed immediately before EVERY state-changing libc call (rename, unlink, open-for-write/create, write to the database, WAL, log, "
                     "ftruncate, mkdir...) of every redo process (k = 1..N per logical process) and, whole tree, at every script boundary (script start, after each dependency "
                     "request, after the output was written) -- ~1100 points quick, ~3000 thorough; then `redo-ifchange top` must terminate, "
                     "exit 0, give from-scratch contents without 'you modified it', react correctly to editing every source, leave redo-ood empty, no lock held and no *.redo.tmp. Scope sproc kills, at the script boundaries, only the redo process that runs the script (the orphaned script goes on, redo-stamp included); scope tree+q runs redo-sources/targets/ood between the crash and the recovery: redo's own output is never listed as a source and everything the recovery rebuilds among the known targets was listed out of date. World csum-append: a checksummed node that appends to $3. Worlds tolerant / tolerant-csum (a script that goes on without a failed dependency) under scope sproc; worlds chain+log / csum-mid+log with log capture on.",
                note="Crash = process kill at libc-call boundaries (the property's quantifier), not power loss. Shim coverage cross-checked against strace -f. -j1, REDO_LOG=0. "
                     "The counting run is done twice and must agree."),
    "C16": dict(engine="E2", category="model_checking", design_ref="DESIGN.md §4 C16, appendix A",
                technique="stateless model checking of 2-3 concurrently started real commands under a controlled scheduler, iterative deviation bounding",
                text="2-3 top-level commands (builds and read-only queries) started together on a project without .redo and on an existing database; every schedule with "
                     "<= b deviations (quick 1, thorough 2-3) at the gates database-open, transaction begin, locks, event loop, scripts is executed on the real binary. "
                     "Oracle: every command exits 0 with no SQLite/busy/lock message, integrity_check ok, every Files row and Deps edge each command must write is present, "
                     "contents correct, run ids unique. Plus an environment player outside the scheduler: an external connection holds the write lock for each of an enumerated "
                     "list of hold times (0.2 s .. 8 s quick, .. 20 s thorough) while four commands start; all must wait and succeed. Scenario crossed-lists-j2: two parallel builds whose lists end with a target the other starts with (no lock wait while holding the lock of a finished, unrecorded job).",
                note="No gate inside an IMMEDIATE transaction (mutually excluded by SQLite, atomic for other processes). <= 3 commands; all scripts succeed."),
    "C11": dict(engine="E1", category="model_checking", design_ref="DESIGN.md §4 C11",
                technique="explicit-state BFS over histories mixing builds with user create/edit/replace/remove, ownership-ledger oracle",
                text="All histories <= d (quick 3, thorough 5) of {redo-ifchange a.x|t|all, redo a.x|t, edit src, user-edit in place (two sizes), user-replace (new inode), "
                     "user-rm} for a name matched by default.x.do and a name with a specific t.do; an ownership ledger records the last writer of each path. Every redo "
                     "command must leave bytes and inode of every user-owned path unchanged, warn when it skips a user-modified generated file, run only scripts the reference "
                     "allows and rebuild correctly after the user removed the file. Also a user-made symbolic link under a name the default rule matches, and a second world in which the "
                     "user edits and removes a checksummed target that has a dependent. Third world: a rule whose product is a directory (mkdir $3) and a non-empty directory of the user's under a matching name. Also the user's file hard-linked into a target's place, and seed states: first-ever build killed after redo-stamp then a user file; removed checksummed target whose rebuild fails, user file, removal.",
                note="-j1; two names, one default and one specific rule. Edits that keep mtime AND size identical are not generated (redo's documented detection is by mtime/size)."),
    "C12": dict(engine="E1 (-j1) + E2 (-j2)", category="model_checking", design_ref="DESIGN.md §4 C12",
                technique="exhaustive enumeration of cyclic graph family x entry points at -j1; stateless schedule exploration at -j2 with deadlock/livelock detection",
                text="E1: every world with cycle length 1..4 (quick 1..3), prefix 0..2 (quick 0..1), with/without acyclic sibling, entered from every node with redo-ifchange "
                     "and redo, twice, and with the sibling in both orders with/without keep-going: terminates, non-zero, not an abort, names the cyclic dependency, sibling built "
                     "under -k. E2: cycle members / prefix+sibling as parallel jobs at -j2 and two invocations, all schedules <= b deviations: termination is decided as absence of "
                     "reachable deadlock or livelock states.",
                note="One known finding (two members of one cycle as parallel jobs of one redo process hang) is listed in known_findings.json and reported as KNOWN-FINDING."),
    "C13": dict(engine="E4 + single-step real-binary enumeration", category="exploration", design_ref="DESIGN.md §4 C13",
                technique="exhaustive enumeration of target paths x all 2^k placements of candidate scripts, independent reference of the documented search order",
                text="E4: for every target path of a component grammar (5 directory shapes x 9 name shapes incl. leading dots, double dots, spaces, unicode; "
                     "thorough also '..' and doubled-separator spellings) the candidate list of the library (possible_do_files) equals an independent "
                     "reference of the documented order. Real binary: for targets with k<=8 candidates, ALL 2^k placements of candidate scripts are built "
                     "with `redo` and listed with `redo-whichdo`; chosen script, $1, $2, $3, cwd and the whichdo listing/status must equal the reference. Histories: add a higher-priority candidate / remove the chosen one for every candidate pair (target directory existing or not; the candidate first appearing as a dangling symbolic link; a target whose name starts with a dash). 21 cases of a target outside the project directory asked for by a script (rules above the target, a foreign rule in the project directory).",
                note="Exhaustive over the stated grammar and placements; longer names/deeper trees are not covered. History part (add higher-priority / remove chosen) is C02's default world."),
    "C14": dict(engine="E1 (+E2 scenario always-j2)", category="model_checking", design_ref="DESIGN.md §4 C14",
                technique="explicit-state BFS over create/delete/edit/build histories on the real binary; reference-simulation oracle",
                text="All histories <= d (quick 3-4, thorough 5-6) of {redo-ifchange, create f, delete f, edit f, edit unrelated u} on worlds declaring "
                     "redo-ifcreate (conditionally and unconditionally) and of {redo-ifchange, redo, edit} on redo-always worlds with 2 and 3 dependents; "
                     "rebuilt iff the watched path came into existence, never for unrelated edits; ifcreate of an existing path fails; the always-target "
                     "runs exactly once in every run that needs it and not otherwise. One world watches a path that is a dangling symbolic link. Also a watched path that comes into existence as a directory, one spelled through a missing directory (nosuch/../f), and the seed state present -> deleted.",
                note="Parallel part (E2): the always-target with 2-3 dependents requested concurrently at -j2/-j3, all schedules <= b deviations. Flat worlds."),
    "C15": dict(engine="E4 (+E1/E2 end-to-end spellings)", category="exploration", design_ref="DESIGN.md §4 C15",
                technique="exhaustive enumeration of all strings <= n over {a,b,.,/} and all (cwd,t,base) triples in a real tree with symlinks; kernel stat identity as ground truth",
                text="normpath over every string of length <=6 (quick) / <=8 (thorough, 87 381) over {a,b,.,/} plus all <=6-component sequences of {'', ., .., a, bb}: "
                     "equals an independent Clean, is idempotent, and whenever stat(x) succeeds in a symlink-free real tree stat(normpath(x)) names the same inode. "
                     "relpath/realdirpath over all triples of 6 working directories x ~75 spellings x 15 bases in a real tree with directory symlinks: re-joining "
                     "reaches the same directory entry (lstat identity). End to end also: scripts that cd (to sub-directories, through links) before asking for a root-level target under several spellings, direct and out-of-band path; first-ever commands from a working directory entered through a link outside the project with the logical $PWD exported.",
                note="Kernel path resolution is the ground truth. Alphabets as stated; longer strings not covered. End-to-end part: every ordered pair of spellings on one command line "
                     "(unscheduled, -j1/-j2), and scheduled scenarios (E2, <= b deviations): several spellings while another invocation holds the lock, two invocations with different spellings, also through a directory symlink."),
    "C17": dict(engine="E1", category="model_checking", design_ref="DESIGN.md §4 C17",
                technique="explicit-state BFS over histories with query commands probed in every reached state and a shadow replay with queries interleaved",
                text="Every state reached by the C01/C02 history space (depth <= d) is probed with redo-ood, redo-targets, redo-sources: lower <= ood <= upper "
                     "against the reference model, targets/sources disjoint and consistent with the ownership ledger; and each deepest history is replayed with all "
                     "three queries inserted after every step: exit codes, executed scripts, file contents and the final canonical database key must be identical. One world adds hand edits of generated files.",
                note="Reference model trusted; 'known files' taken from the implementation's Files table. -j1."),
    "C18": dict(engine="E4 (records) + E2 (schedules with the real redo-log follower)", category="model_checking", design_ref="DESIGN.md §4 C18",
                technique="exhaustive enumeration of record values for format/parse round trip; stateless schedule exploration of builds whose scripts write tagged stderr lines",
                text="E4: parse(format(m)) == m for every (kind, pid, timestamp, text) over 11 kinds x 4 pids x 19 timestamps (incl. 4th-decimal rounding) x every text of <= 4/5 "
                     "tokens from an adversarial alphabet (~210k quick / ~930k thorough records); done-text split; prefix recognised only at column 0. "
                     "E2: world top -> {a -> c, b}, every script writes a whole line, a line in two halves with a scheduling point in between, a 20 kB line and a line after its "
                     "dependencies; default log mode (real redo-log follower inside the scheduled tree, its polls are scheduling points), -j1 and -j2, every schedule with <= b "
                     "deviations (quick 1, thorough 2): in the live output and in later `redo-log -r` replays (pretty and raw) each target's lines appear exactly once, in order, "
                     "byte-complete, under that target's header. Further scenarios: a target reached under three names (../c from two directories), replays with -u, a nested build whose stderr the calling script redirected, lines that look like records (unknown file, malformed done, record prefix inside a partial line), an unchanged dependency that writes nothing. Also a record without text, a multi-byte character cut between two polls, a target whose name ends in a space.",
                note="A script line that itself parses as a record is in-band signalling by design (thorough scenario). Graph and line shapes as listed."),
}

# additions of the seventh round (appended to the texts above)
MORE = {
    "C01": " World shared-src: two targets that share a source and are asked for in separate runs.",
    "C02": " World shared-src: two targets that share a source and are asked for in separate runs.",
    "C07": " Also a target whose script goes on without a failing dependency and that two jobs ask for (once per run).",
    "C08": " Also a make -jN in the MIDDLE of a build (shim/rvmake, run by a build script: a token pipe of its own, an extra recipe that takes a handed-back token and is a scheduled process): the middle make and the redo above it both end with their own token counts; and a failing build under a make parent after a sub-redo left on a borrowed slot. For a redo parent one cheat byte next to one token too many is a settled account; for a make parent every token counts.",
    "C09": " Also (outside the scheduler, watchdog 90 s) redo -j2 with a slow first target and 220 further targets with long names: 64 KiB of redo's own records on the pipe to the log viewer must not stop the build; and a sub-redo that comes back from another invocation's lock at -j1 while the redo above it only waits for its children.",
    "C11": " Also names with a trailing separator (u.x/, u.x/.) for a user's file and for a generated one, and a user's directory that is moved away and replaced by a user's regular file under a name whose rule produces a file.",
    "C12": " Also two members of a cycle named by one command and asked for by one script in a single redo-ifchange (-j1).",
    "C13": " Also histories with the state directory one level below the top (candidates above the project base), and arguments that name no file or that no target can be called ('/', '/..', '.', 'a/..', a newline, not UTF-8; commands that would make the file-system root their project run in a chroot jail): nobody aborts. $3 is judged as 'beside the target, ending in the suffix this binary uses' (learned from the subject).",
    "C14": " Also the watched path asked for by itself (fails while absent: the failed mark must not make the watcher rebuild), and a watched path below a regular file that the user may replace by a directory.",
    "C16": " Also redo of an existing file that redo has never heard of, next to a build.",
    "C17": " The quick tier includes the ifcreate world (a name known only as 'must not exist', then created).",
    "C18": " Also a partial line in front of each of two nested builds and an unterminated line right after a nested build (both must stay with the script that wrote them: oracle key 'attributed'), and a record-like line whose text contains a NUL byte.",
    "C04": " The name of the temporary file is learned from the subject (a tree that calls it something else raises no alarm).",
    "C10": " The name of the temporary file is learned from the subject.",
}
for _k, _v in MORE.items():
    CHECKS[_k]["text"] += _v

NOT_YET = "check not built yet in this session (work in progress; see DESIGN.md §4 for the planned bounded exhaustive check)"

checks = []
na = []
for p in props:
    pid = p["id"]
    c = CHECKS.get(pid)
    if not c:
        na.append({"property_id": pid, "reason": NOT_YET})
        continue
    checks.append({
        "property_id": pid,
        "quick_cmd": f"bin/check {pid} --tier quick",
        "thorough_cmd": f"bin/check {pid} --tier thorough",
        "evidence_file": f"/verif/evidence/{pid}.json",
        "replay_cmd_template": f"bin/check {pid} --replay {{path}}",
        "engine": c["engine"],
        "level_claimed": {"category": c["category"], "text": c["text"], "design_ref": c["design_ref"]},
        "level_note": c["note"],
        "technique": c["technique"],
    })

hooks_commits = ["ee2d8e13945f7e35bd57c0fa5b17d5aa048a6d8b"]
extra = V / "hooks_commits.txt"
if extra.exists():
    hooks_commits = [l.strip() for l in extra.read_text().split("\n") if l.strip()]

manifest = {
    "version": 1,
    "setup_cmd": "bin/setup",
    "hooks": {
        "guard": "cargo feature verif-hooks",
        "enable": "cargo build --offline --manifest-path /repo/Cargo.toml --features verif-hooks --bin redo --target-dir /verif/.cache/target "
                  "(done by every check through rv/common.py build_subject; hooks are inert unless REDO_VERIF_SOCK is set)",
        "baseline_off_cmd": "cd /repo && cargo test --workspace --no-fail-fast --offline",
        "source_commits": hooks_commits,
        "add_only": True,
    },
    "engines": [
        {"name": "E1", "path": "rv/e1.py", "serves_properties": ["C01", "C02", "C03", "C05", "C11", "C12", "C13", "C14", "C17"],
         "kind_free_text": "explicit-state BFS over operation histories, each transition executed on the real redo binary; canonical-key dedup; reference model oracle"},
        {"name": "E2", "path": "rv/e2/", "serves_properties": ["C05", "C06", "C07", "C08", "C09", "C12", "C14", "C15", "C16", "C18"],
         "kind_free_text": "stateless model checking of the real process tree: controlled scheduler over feature-guarded gates, iterative preemption bounding"},
        {"name": "E3", "path": "rv/e3.py", "serves_properties": ["C04", "C10"],
         "kind_free_text": "crash-point enumeration at the libc boundary via LD_PRELOAD shim (every state-changing call of every redo process)"},
        {"name": "E4", "path": "harness/", "serves_properties": ["C13", "C15", "C18"],
         "kind_free_text": "exhaustive bounded input enumeration of exported pure functions against independent references"},
    ],
    "checks": checks,
    "not_applicable": na,
    "notes": "All checks rebuild the subject from /repo's working tree (hash of src/, Cargo.toml, Cargo.lock) with the verif-hooks feature. "
             "Exit codes: 0 held, 1 VIOLATION, 2 machinery error. Known findings: known_findings.json.",
}
(V / "MANIFEST.json").write_text(json.dumps(manifest, indent=1) + "\n")
print("checks:", [c["property_id"] for c in checks], "n/a:", len(na))
