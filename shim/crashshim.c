/*
 * crashshim.so -- LD_PRELOAD shim for engine E3 (crash-point enumeration at the
 * libc boundary).  See DESIGN.md, section E3 and appendix D.
 *
 * Wrapped ("counted") calls -- the state-changing calls of the property text:
 *   rename renameat renameat2, unlink unlinkat rmdir, link linkat symlink
 *   symlinkat, mkdir mkdirat,
 *   open open64 openat openat64 creat creat64   (only with O_CREAT, O_TRUNC,
 *       O_WRONLY or O_RDWR, and not below /dev (except /dev/shm) /proc /sys),
 *   write pwrite pwrite64 writev pwritev pwritev64 copy_file_range sendfile
 *       sendfile64 splice                       (only when the destination
 *       descriptor is a regular file -- fstat -- so pipes, sockets and ttys do
 *       not count; Rust's io::copy uses copy_file_range/sendfile/splice),
 *   ftruncate ftruncate64 truncate truncate64.
 * Logged but never counted (never a crash point): fsync fdatasync.
 *
 * What the subject really calls (nm -D on the binary + strace cross-check in
 * rv/e3.py selftest): Rust std -> open64 openat64 write writev rename unlink
 * unlinkat mkdir link symlink rmdir ftruncate64 copy_file_range sendfile64
 * splice; the bundled SQLite (built without pread/pwrite) -> open64, lseek64 +
 * write, unlink, ftruncate64, fsync.  So SQLite's writes to db.sqlite3 and
 * db.sqlite3-wal ARE intercepted (as "write").  NOT interceptable: stores
 * through the mmap'ed db.sqlite3-shm wal-index (plain memory writes), and raw
 * syscall(2) uses.  mmap stores are not in the property's list of call kinds;
 * the -shm file is a rebuildable cache of the -wal file.
 *
 * Environment:
 *   RVSHIM_PROCS=<file>   every process image (constructor) and every fork child
 *                         (pthread_atfork) appends
 *                         "<pid> <ppid> <exec|fork> <lid> <exe-basename> <argv...>"
 *   RVSHIM_LOG=<file>     one line per wrapped call:
 *                         "<pid> <ppid> <argv0-basename> <idx|-> <call> <path> <path2|-> <lid> <R|o> <size>"
 *                         idx = index of the call among this logical process's
 *                         counted calls (1-based), "-" for fsync/fdatasync;
 *                         R = redo process (crash target), o = other (scripts,
 *                         logged for context, never killed, never observed).
 *                         A fired kill writes "<pid> <ppid> <name> <idx> KILL <scope> <call> <lid> R 0".
 *   RVSHIM_KILL=<lid>:<k>:<proc|tree>
 *                         in the logical process <lid>, immediately BEFORE its
 *                         k-th counted call: kill(getpid(),SIGKILL) (proc) or
 *                         kill(0,SIGKILL) (tree: the whole process group; the
 *                         harness starts every invocation in its own session
 *                         and is not a member).
 *   RVSHIM_OBSERVE=<unix socket path>
 *                         before each counted call of a redo process: connect,
 *                         send "<pid> <lid> <idx> <call> <path> <path2>\n", block
 *                         until the harness answers one byte, close.  One
 *                         connection per call: no state survives fork/exec.
 *
 * Logical process id (lid) -- stable across runs at -j1:
 *   process image created by exec:  "<argv0-basename>,<arg1>,<arg2>...#<n>",
 *       n = 1 + number of earlier images with the same argv in this invocation
 *       (computed under flock from RVSHIM_PROCS, i.e. by global start order,
 *       which is deterministic at -j1 because redo runs one job at a time);
 *   fork child that has not exec'ed: "<parent lid>/f<m>", m = the parent's m-th
 *       fork (a per-process count, independent of global order).
 *   The counter of counted calls belongs to the lid: it starts at 0 in every
 *   new image (fresh memory) and is reset to 0 in the fork child handler, so
 *   (lid, k) names exactly one call.  A fork child of redo that has not
 *   exec'ed yet still has /proc/self/exe == redo and IS a crash target.
 */
#define _GNU_SOURCE
#include <dlfcn.h>
#include <errno.h>
#include <fcntl.h>
#include <pthread.h>
#include <signal.h>
#include <stdarg.h>
#include <stdio.h>
#include <stdlib.h>
#include <string.h>
#include <sys/file.h>
#include <sys/socket.h>
#include <sys/stat.h>
#include <sys/types.h>
#include <sys/uio.h>
#include <sys/un.h>
#include <unistd.h>

#define LIDMAX 400
#define PATHMAX 1024

static int g_init;
static int g_is_redo;
static char g_name[64];          /* basename of argv[0] */
static char g_exe[64];           /* basename of /proc/self/exe */
static char g_lid[LIDMAX];
static volatile long g_counter;  /* counted calls of this logical process */
static int g_nfork;              /* forks performed by this logical process */
static const char *g_log, *g_procs, *g_observe;
static char g_kill_lid[LIDMAX];
static long g_kill_k;
static int g_kill_tree;
static int g_armed;

/* ---- real functions -------------------------------------------------------- */
#define REAL(ret, name, ...)                                         \
    static ret (*real_##name)(__VA_ARGS__);                          \
    static inline void load_##name(void) {                           \
        if (!real_##name) real_##name = dlsym(RTLD_NEXT, #name);     \
    }

REAL(ssize_t, write, int, const void *, size_t)
REAL(int, open, const char *, int, ...)
REAL(int, close, int)

static ssize_t raw_write(int fd, const void *b, size_t n) { load_write(); return real_write(fd, b, n); }
static int raw_open(const char *p, int fl, int mode) { load_open(); return real_open(p, fl, mode); }

static void sanitize(char *s) {
    for (; *s; s++)
        if ((unsigned char)*s <= ' ' || *s == ':' || *s == '#' || *s == '/' || (unsigned char)*s >= 127) *s = '_';
}

static const char *base_of(const char *p) {
    const char *b = strrchr(p, '/');
    return b ? b + 1 : p;
}

static void eval_kill(void) {
    g_armed = g_is_redo && g_kill_k > 0 && strcmp(g_kill_lid, g_lid) == 0;
}

/* append a record to RVSHIM_PROCS; for exec images also compute the ordinal */
static void register_proc(const char *kind, const char *key, int argc, char **argv) {
    char buf[65536];
    char line[2048];
    int n = 1;
    int fd = -1;
    if (g_procs) fd = raw_open(g_procs, O_RDWR | O_APPEND | O_CREAT | O_CLOEXEC, 0644);
    if (fd >= 0) flock(fd, LOCK_EX);
    if (key) {
        if (fd >= 0) {
            ssize_t len = pread(fd, buf, sizeof buf - 1, 0);
            if (len < 0) len = 0;
            buf[len] = 0;
            size_t kl = strlen(key);
            char *p = buf;
            while (*p) {
                char *e = strchr(p, '\n');
                if (!e) break;
                *e = 0;
                /* fields: pid ppid kind lid ... */
                char *f = p;
                for (int i = 0; i < 3 && f; i++) { f = strchr(f, ' '); if (f) f++; }
                if (f && strncmp(f, key, kl) == 0 && f[kl] == '#') {
                    const char *d = f + kl + 1;
                    int digits = 0;
                    while (*d >= '0' && *d <= '9') { d++; digits++; }
                    if (digits && *d == ' ') n++;
                }
                p = e + 1;
            }
        }
        snprintf(g_lid, sizeof g_lid, "%s#%d", key, n);
    }
    if (fd >= 0) {
        int o = snprintf(line, sizeof line, "%d %d %s %s %s", (int)getpid(), (int)getppid(), kind, g_lid, g_exe);
        for (int i = 0; i < argc && o < (int)sizeof line - 2; i++) {
            char a[256];
            snprintf(a, sizeof a, "%s", argv[i]);
            for (char *c = a; *c; c++) if ((unsigned char)*c < ' ') *c = '_';
            o += snprintf(line + o, sizeof line - o - 1, " %s", a);
        }
        if (o > (int)sizeof line - 2) o = sizeof line - 2;
        line[o++] = '\n';
        raw_write(fd, line, o);
        flock(fd, LOCK_UN);
        load_close();
        real_close(fd);
    }
}

static void at_prepare(void) { g_nfork++; }

static void at_child(void) {
    char tmp[LIDMAX];
    snprintf(tmp, sizeof tmp, "%s/f%d", g_lid, g_nfork);
    memcpy(g_lid, tmp, sizeof g_lid);
    g_counter = 0;
    g_nfork = 0;
    eval_kill();
    register_proc("fork", NULL, 0, NULL);
}

__attribute__((constructor)) static void shim_init(int argc, char **argv, char **envp) {
    (void)envp;
    if (g_init) return;
    g_init = 1;
    char exe[PATHMAX];
    ssize_t n = readlink("/proc/self/exe", exe, sizeof exe - 1);
    if (n < 0) n = 0;
    exe[n] = 0;
    snprintf(g_exe, sizeof g_exe, "%s", base_of(exe));
    g_is_redo = strncmp(g_exe, "redo", 4) == 0;
    snprintf(g_name, sizeof g_name, "%s", argc > 0 && argv && argv[0] ? base_of(argv[0]) : g_exe);
    sanitize(g_name);
    g_log = getenv("RVSHIM_LOG");
    g_procs = getenv("RVSHIM_PROCS");
    g_observe = getenv("RVSHIM_OBSERVE");
    if (g_log && !*g_log) g_log = NULL;
    if (g_procs && !*g_procs) g_procs = NULL;
    if (g_observe && !*g_observe) g_observe = NULL;
    const char *ks = getenv("RVSHIM_KILL");
    if (ks && *ks) {
        /* <lid>:<k>:<scope>, the lid never contains ':' (sanitized) */
        const char *c1 = strchr(ks, ':');
        const char *c2 = c1 ? strchr(c1 + 1, ':') : NULL;
        if (c1 && c2 && (size_t)(c1 - ks) < sizeof g_kill_lid) {
            memcpy(g_kill_lid, ks, c1 - ks);
            g_kill_lid[c1 - ks] = 0;
            g_kill_k = atol(c1 + 1);
            g_kill_tree = strcmp(c2 + 1, "tree") == 0;
        }
    }
    /* key = argv joined with ',' (argv[0] by basename), sanitized, bounded */
    char key[LIDMAX - 16];
    int o = snprintf(key, sizeof key, "%s", g_name);
    for (int i = 1; i < argc && o < (int)sizeof key - 1; i++) {
        char a[128];
        snprintf(a, sizeof a, "%s", argv[i]);
        sanitize(a);
        o += snprintf(key + o, sizeof key - o, ",%s", a);
    }
    key[sizeof key - 1] = 0;
    register_proc("exec", key, argc, argv);
    eval_kill();
    pthread_atfork(at_prepare, NULL, at_child);
}

/* ---- path helpers ---------------------------------------------------------- */
static void fd_path(int fd, char *out, size_t n) {
    char l[64];
    snprintf(l, sizeof l, "/proc/self/fd/%d", fd);
    ssize_t r = readlink(l, out, n - 1);
    if (r < 0) { snprintf(out, n, "fd:%d", fd); return; }
    out[r] = 0;
}

static void abs_path(int dirfd, const char *p, char *out, size_t n) {
    if (!p) { snprintf(out, n, "(null)"); return; }
    if (p[0] == '/') { snprintf(out, n, "%s", p); return; }
    char d[PATHMAX];
    if (dirfd == AT_FDCWD) {
        if (!getcwd(d, sizeof d)) snprintf(d, sizeof d, "?");
    } else {
        fd_path(dirfd, d, sizeof d);
    }
    snprintf(out, n, "%s/%s", d, p);
}

static void nospace(char *s) {
    for (; *s; s++) if (*s == ' ' || *s == '\n' || *s == '\t') *s = '?';
}

static int is_regular(int fd) {
    struct stat st;
    int e = errno;
    int r = fstat(fd, &st) == 0 && S_ISREG(st.st_mode);
    errno = e;
    return r;
}

static int skip_path(const char *p) {
    if (strncmp(p, "/dev/shm/", 9) == 0) return 0;   /* the harness's scratch space */
    return strncmp(p, "/dev/", 5) == 0 || strncmp(p, "/proc/", 6) == 0 || strncmp(p, "/sys/", 5) == 0;
}

/* ---- the core: called immediately before a wrapped call ---------------------- */
static void log_line(const char *idx, const char *call, const char *p1, const char *p2, long size) {
    if (!g_log) return;
    char line[2 * PATHMAX + 600];
    int o = snprintf(line, sizeof line, "%d %d %s %s %s %s %s %s %c %ld\n", (int)getpid(), (int)getppid(), g_name, idx,
                     call, p1, p2, g_lid, g_is_redo ? 'R' : 'o', size);
    if (o > (int)sizeof line) o = sizeof line;
    int fd = raw_open(g_log, O_WRONLY | O_APPEND | O_CREAT | O_CLOEXEC, 0644);
    if (fd >= 0) {
        raw_write(fd, line, o);
        load_close();
        real_close(fd);
    }
}

static void observe(long idx, const char *call, const char *p1, const char *p2) {
    int s = socket(AF_UNIX, SOCK_STREAM | SOCK_CLOEXEC, 0);
    if (s < 0) return;
    struct sockaddr_un a;
    memset(&a, 0, sizeof a);
    a.sun_family = AF_UNIX;
    snprintf(a.sun_path, sizeof a.sun_path, "%s", g_observe);
    if (connect(s, (struct sockaddr *)&a, sizeof a) == 0) {
        char line[2 * PATHMAX + 600];
        int o = snprintf(line, sizeof line, "%d %s %ld %s %s %s\n", (int)getpid(), g_lid, idx, call, p1, p2);
        if (o > (int)sizeof line) o = sizeof line;
        if (send(s, line, o, MSG_NOSIGNAL) == o) {
            char ack;
            while (recv(s, &ack, 1, 0) < 0 && errno == EINTR) {}
        }
    } else {
        log_line("-", "OBSERVE-CONNECT-FAILED", g_observe, "-", errno);
    }
    load_close();
    real_close(s);
}

static void before(int counted, const char *call, const char *p1, const char *p2, long size) {
    int e = errno;
    if (!g_init) shim_init(0, NULL, NULL);
    char a[PATHMAX], b[PATHMAX];
    snprintf(a, sizeof a, "%s", p1 ? p1 : "-");
    snprintf(b, sizeof b, "%s", p2 ? p2 : "-");
    nospace(a);
    nospace(b);
    if (!counted) {
        log_line("-", call, a, b, size);
        errno = e;
        return;
    }
    long idx = __sync_add_and_fetch(&g_counter, 1);
    char is[24];
    snprintf(is, sizeof is, "%ld", idx);
    if (g_armed && idx == g_kill_k) {
        log_line(is, "KILL", g_kill_tree ? "tree" : "proc", call, 0);
        if (g_kill_tree) kill(0, SIGKILL); else kill(getpid(), SIGKILL);
        for (;;) pause();   /* SIGKILL cannot be handled; never proceed past the crash point */
    }
    log_line(is, call, a, b, size);
    if (g_observe && g_is_redo) observe(idx, call, a, b);
    errno = e;
}

/* ---- wrappers -------------------------------------------------------------- */
static int open_counts(int flags) {
    int acc = flags & O_ACCMODE;
    return (flags & (O_CREAT | O_TRUNC)) || acc == O_WRONLY || acc == O_RDWR;
}

static int needs_mode(int flags) {
    return (flags & O_CREAT) || (flags & O_TMPFILE) == O_TMPFILE;
}

#define OPEN_WRAPPER(fn)                                                     \
    int fn(const char *path, int flags, ...) {                               \
        static int (*real)(const char *, int, ...);                          \
        if (!real) real = dlsym(RTLD_NEXT, #fn);                             \
        mode_t mode = 0;                                                     \
        if (needs_mode(flags)) { va_list ap; va_start(ap, flags); mode = va_arg(ap, mode_t); va_end(ap); } \
        if (open_counts(flags)) {                                            \
            char p[PATHMAX];                                                 \
            abs_path(AT_FDCWD, path, p, sizeof p);                           \
            if (!skip_path(p)) before(1, #fn, p, NULL, flags);               \
        }                                                                    \
        return real(path, flags, mode);                                      \
    }
OPEN_WRAPPER(open)
OPEN_WRAPPER(open64)

#define OPENAT_WRAPPER(fn)                                                   \
    int fn(int dirfd, const char *path, int flags, ...) {                    \
        static int (*real)(int, const char *, int, ...);                     \
        if (!real) real = dlsym(RTLD_NEXT, #fn);                             \
        mode_t mode = 0;                                                     \
        if (needs_mode(flags)) { va_list ap; va_start(ap, flags); mode = va_arg(ap, mode_t); va_end(ap); } \
        if (open_counts(flags)) {                                            \
            char p[PATHMAX];                                                 \
            abs_path(dirfd, path, p, sizeof p);                              \
            if (!skip_path(p)) before(1, #fn, p, NULL, flags);               \
        }                                                                    \
        return real(dirfd, path, flags, mode);                               \
    }
OPENAT_WRAPPER(openat)
OPENAT_WRAPPER(openat64)

#define CREAT_WRAPPER(fn)                                                    \
    int fn(const char *path, mode_t mode) {                                  \
        static int (*real)(const char *, mode_t);                            \
        if (!real) real = dlsym(RTLD_NEXT, #fn);                             \
        char p[PATHMAX];                                                     \
        abs_path(AT_FDCWD, path, p, sizeof p);                               \
        if (!skip_path(p)) before(1, #fn, p, NULL, 0);                       \
        return real(path, mode);                                             \
    }
CREAT_WRAPPER(creat)
CREAT_WRAPPER(creat64)

int rename(const char *a, const char *b) {
    static int (*real)(const char *, const char *);
    if (!real) real = dlsym(RTLD_NEXT, "rename");
    char p[PATHMAX], q[PATHMAX];
    abs_path(AT_FDCWD, a, p, sizeof p);
    abs_path(AT_FDCWD, b, q, sizeof q);
    before(1, "rename", p, q, 0);
    return real(a, b);
}

int renameat(int da, const char *a, int db, const char *b) {
    static int (*real)(int, const char *, int, const char *);
    if (!real) real = dlsym(RTLD_NEXT, "renameat");
    char p[PATHMAX], q[PATHMAX];
    abs_path(da, a, p, sizeof p);
    abs_path(db, b, q, sizeof q);
    before(1, "renameat", p, q, 0);
    return real(da, a, db, b);
}

int renameat2(int da, const char *a, int db, const char *b, unsigned int fl) {
    static int (*real)(int, const char *, int, const char *, unsigned int);
    if (!real) real = dlsym(RTLD_NEXT, "renameat2");
    char p[PATHMAX], q[PATHMAX];
    abs_path(da, a, p, sizeof p);
    abs_path(db, b, q, sizeof q);
    before(1, "renameat2", p, q, fl);
    return real(da, a, db, b, fl);
}

#define PATH1_WRAPPER(fn)                                                    \
    int fn(const char *a) {                                                  \
        static int (*real)(const char *);                                    \
        if (!real) real = dlsym(RTLD_NEXT, #fn);                             \
        char p[PATHMAX];                                                     \
        abs_path(AT_FDCWD, a, p, sizeof p);                                  \
        before(1, #fn, p, NULL, 0);                                          \
        return real(a);                                                      \
    }
PATH1_WRAPPER(unlink)
PATH1_WRAPPER(rmdir)

int unlinkat(int d, const char *a, int fl) {
    static int (*real)(int, const char *, int);
    if (!real) real = dlsym(RTLD_NEXT, "unlinkat");
    char p[PATHMAX];
    abs_path(d, a, p, sizeof p);
    before(1, "unlinkat", p, NULL, fl);
    return real(d, a, fl);
}

int link(const char *a, const char *b) {
    static int (*real)(const char *, const char *);
    if (!real) real = dlsym(RTLD_NEXT, "link");
    char p[PATHMAX], q[PATHMAX];
    abs_path(AT_FDCWD, a, p, sizeof p);
    abs_path(AT_FDCWD, b, q, sizeof q);
    before(1, "link", p, q, 0);
    return real(a, b);
}

int linkat(int da, const char *a, int db, const char *b, int fl) {
    static int (*real)(int, const char *, int, const char *, int);
    if (!real) real = dlsym(RTLD_NEXT, "linkat");
    char p[PATHMAX], q[PATHMAX];
    abs_path(da, a, p, sizeof p);
    abs_path(db, b, q, sizeof q);
    before(1, "linkat", p, q, fl);
    return real(da, a, db, b, fl);
}

int symlink(const char *a, const char *b) {
    static int (*real)(const char *, const char *);
    if (!real) real = dlsym(RTLD_NEXT, "symlink");
    char q[PATHMAX];
    abs_path(AT_FDCWD, b, q, sizeof q);
    before(1, "symlink", q, a, 0);
    return real(a, b);
}

int symlinkat(const char *a, int d, const char *b) {
    static int (*real)(const char *, int, const char *);
    if (!real) real = dlsym(RTLD_NEXT, "symlinkat");
    char q[PATHMAX];
    abs_path(d, b, q, sizeof q);
    before(1, "symlinkat", q, a, 0);
    return real(a, d, b);
}

int mkdir(const char *a, mode_t m) {
    static int (*real)(const char *, mode_t);
    if (!real) real = dlsym(RTLD_NEXT, "mkdir");
    char p[PATHMAX];
    abs_path(AT_FDCWD, a, p, sizeof p);
    before(1, "mkdir", p, NULL, 0);
    return real(a, m);
}

int mkdirat(int d, const char *a, mode_t m) {
    static int (*real)(int, const char *, mode_t);
    if (!real) real = dlsym(RTLD_NEXT, "mkdirat");
    char p[PATHMAX];
    abs_path(d, a, p, sizeof p);
    before(1, "mkdirat", p, NULL, 0);
    return real(d, a, m);
}

static void before_fd(const char *call, int fd, long size) {
    if (is_regular(fd)) {
        char p[PATHMAX];
        fd_path(fd, p, sizeof p);
        before(1, call, p, NULL, size);
    }
}

ssize_t write(int fd, const void *buf, size_t n) {
    load_write();
    before_fd("write", fd, (long)n);
    return real_write(fd, buf, n);
}

#define PWRITE_WRAPPER(fn, off_type)                                         \
    ssize_t fn(int fd, const void *buf, size_t n, off_type off) {            \
        static ssize_t (*real)(int, const void *, size_t, off_type);         \
        if (!real) real = dlsym(RTLD_NEXT, #fn);                             \
        before_fd(#fn, fd, (long)n);                                         \
        return real(fd, buf, n, off);                                        \
    }
PWRITE_WRAPPER(pwrite, off_t)
PWRITE_WRAPPER(pwrite64, off64_t)

ssize_t writev(int fd, const struct iovec *iov, int cnt) {
    static ssize_t (*real)(int, const struct iovec *, int);
    if (!real) real = dlsym(RTLD_NEXT, "writev");
    before_fd("writev", fd, cnt);
    return real(fd, iov, cnt);
}

#define PWRITEV_WRAPPER(fn, off_type)                                        \
    ssize_t fn(int fd, const struct iovec *iov, int cnt, off_type off) {     \
        static ssize_t (*real)(int, const struct iovec *, int, off_type);    \
        if (!real) real = dlsym(RTLD_NEXT, #fn);                             \
        before_fd(#fn, fd, cnt);                                             \
        return real(fd, iov, cnt, off);                                      \
    }
PWRITEV_WRAPPER(pwritev, off_t)
PWRITEV_WRAPPER(pwritev64, off64_t)

ssize_t copy_file_range(int fi, off64_t *oi, int fo, off64_t *oo, size_t len, unsigned int fl) {
    static ssize_t (*real)(int, off64_t *, int, off64_t *, size_t, unsigned int);
    if (!real) real = dlsym(RTLD_NEXT, "copy_file_range");
    before_fd("copy_file_range", fo, (long)len);
    return real(fi, oi, fo, oo, len, fl);
}

#define SENDFILE_WRAPPER(fn, off_type)                                       \
    ssize_t fn(int out, int in, off_type *off, size_t n) {                   \
        static ssize_t (*real)(int, int, off_type *, size_t);                \
        if (!real) real = dlsym(RTLD_NEXT, #fn);                             \
        before_fd(#fn, out, (long)n);                                        \
        return real(out, in, off, n);                                        \
    }
SENDFILE_WRAPPER(sendfile, off_t)
SENDFILE_WRAPPER(sendfile64, off64_t)

ssize_t splice(int fi, off64_t *oi, int fo, off64_t *oo, size_t len, unsigned int fl) {
    static ssize_t (*real)(int, off64_t *, int, off64_t *, size_t, unsigned int);
    if (!real) real = dlsym(RTLD_NEXT, "splice");
    before_fd("splice", fo, (long)len);
    return real(fi, oi, fo, oo, len, fl);
}

#define FTRUNC_WRAPPER(fn, off_type)                                         \
    int fn(int fd, off_type len) {                                           \
        static int (*real)(int, off_type);                                   \
        if (!real) real = dlsym(RTLD_NEXT, #fn);                             \
        char p[PATHMAX];                                                     \
        fd_path(fd, p, sizeof p);                                            \
        before(1, #fn, p, NULL, (long)len);                                  \
        return real(fd, len);                                                \
    }
FTRUNC_WRAPPER(ftruncate, off_t)
FTRUNC_WRAPPER(ftruncate64, off64_t)

#define TRUNC_WRAPPER(fn, off_type)                                          \
    int fn(const char *a, off_type len) {                                    \
        static int (*real)(const char *, off_type);                          \
        if (!real) real = dlsym(RTLD_NEXT, #fn);                             \
        char p[PATHMAX];                                                     \
        abs_path(AT_FDCWD, a, p, sizeof p);                                  \
        before(1, #fn, p, NULL, (long)len);                                  \
        return real(a, len);                                                 \
    }
TRUNC_WRAPPER(truncate, off_t)
TRUNC_WRAPPER(truncate64, off64_t)

#define SYNC_WRAPPER(fn)                                                     \
    int fn(int fd) {                                                         \
        static int (*real)(int);                                             \
        if (!real) real = dlsym(RTLD_NEXT, #fn);                             \
        char p[PATHMAX];                                                     \
        fd_path(fd, p, sizeof p);                                            \
        before(0, #fn, p, NULL, 0);                                          \
        return real(fd);                                                     \
    }
SYNC_WRAPPER(fsync)
SYNC_WRAPPER(fdatasync)
