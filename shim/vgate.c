/* vgate p|n <label> -- scheduling point (p) or note (n) for build scripts under the E2 scheduler.
 * Speaks the same line protocol as src/verif.rs in the subject:
 *   "<P|N> <pid> <ppid> <kind> <detail>\n"   ->   "go [arg]\n" | "probe\n"
 * Inert (exit 0 at once) when REDO_VERIF_SOCK is unset. */
#include <stdio.h>
#include <stdlib.h>
#include <string.h>
#include <unistd.h>
#include <sys/socket.h>
#include <sys/un.h>

int main(int argc, char **argv) {
    const char *sock = getenv("REDO_VERIF_SOCK");
    if (!sock || !*sock || argc < 3) return 0;
    int fd = socket(AF_UNIX, SOCK_STREAM, 0);
    if (fd < 0) return 0;
    struct sockaddr_un a;
    memset(&a, 0, sizeof a);
    a.sun_family = AF_UNIX;
    strncpy(a.sun_path, sock, sizeof a.sun_path - 1);
    if (connect(fd, (struct sockaddr *)&a, sizeof a) != 0) return 0;
    char tag = (argv[1][0] == 'p') ? 'P' : 'N';
    char line[512];
    int n = snprintf(line, sizeof line, "%c %d %d script %s\n", tag, (int)getpid(), (int)getppid(), argv[2]);
    for (;;) {
        if (write(fd, line, n) != n) return 0;
        if (tag == 'N') return 0;
        char buf[256];
        int k = 0;
        for (;;) {
            char c;
            int r = read(fd, &c, 1);
            if (r <= 0) return 0;
            if (c == '\n') break;
            if (k < (int)sizeof buf - 1) buf[k++] = c;
        }
        buf[k] = 0;
        if (strcmp(buf, "probe") == 0) continue;
        return 0;
    }
}
