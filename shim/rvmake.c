/* rvmake N cmd [args...] -- plays a GNU `make -jN` that a build script runs in the MIDDLE of a redo build
 * (redo -> script -> make -jN -> +redo-ifchange ...), for the E2 scenarios of C08.
 *
 * Like make it knows nothing of redo: it creates a token pipe of its own holding N-1 tokens, exports it through
 * MAKEFLAGS (and leaves every other variable alone -- REDO_CHEATFDS of the redo above included), runs ONE recipe
 * (`cmd`, on make's implicit slot) and keeps its other slots busy with recipes of its own:
 *   - N-1 long recipes take the N-1 tokens at once and give them back when `cmd` has ended;
 *   - one more recipe (the "taker") starts as soon as a token appears in the pipe -- which happens only if `cmd`
 *     hands its own slot back while it waits for something --, sets the flag make-took, "works" until the flag
 *     make-release exists (under the scheduler: for one polling interval of anybody in the tree) and then gives the
 *     token back.
 * When everything has ended it counts its tokens, as make does ("INTERNAL: Exiting with N jobserver tokens
 * available; should be M!"), and writes `M <found> <expected>` to $RV_TRACE.
 *
 * Under the E2 scheduler the taker is a scheduled process: it parks at a point before it blocks reading the pipe
 * and at `wait:make-release`; rvmake itself only ever blocks in waitpid(). Without a scheduler the points are inert. */
#include <errno.h>
#include <fcntl.h>
#include <signal.h>
#include <stdio.h>
#include <stdlib.h>
#include <string.h>
#include <unistd.h>
#include <sys/socket.h>
#include <sys/stat.h>
#include <sys/un.h>
#include <sys/wait.h>

static int gate_fd = -1;

static void point(char tag, const char *label) {
    const char *sock = getenv("REDO_VERIF_SOCK");
    if (!sock || !*sock) return;
    if (gate_fd < 0) {
        gate_fd = socket(AF_UNIX, SOCK_STREAM, 0);
        struct sockaddr_un a;
        memset(&a, 0, sizeof a);
        a.sun_family = AF_UNIX;
        strncpy(a.sun_path, sock, sizeof a.sun_path - 1);
        if (gate_fd < 0 || connect(gate_fd, (struct sockaddr *)&a, sizeof a) != 0) { gate_fd = -1; return; }
    }
    char line[512];
    int n = snprintf(line, sizeof line, "%c %d %d script %s\n", tag, (int)getpid(), (int)getppid(), label);
    for (;;) {
        if (write(gate_fd, line, n) != n) return;
        if (tag == 'N') return;
        char buf[256];
        int k = 0;
        for (;;) {
            char c;
            int r = read(gate_fd, &c, 1);
            if (r <= 0) return;
            if (c == '\n') break;
            if (k < (int)sizeof buf - 1) buf[k++] = c;
        }
        buf[k] = 0;
        if (strcmp(buf, "probe") == 0) continue;
        return;
    }
}

static void flag_path(char *out, size_t n, const char *name) {
    const char *d = getenv("RV_FLAGS");
    snprintf(out, n, "%s/%s", d ? d : "/tmp", name);
}

static int flag_exists(const char *name) {
    char p[512];
    struct stat st;
    flag_path(p, sizeof p, name);
    return stat(p, &st) == 0;
}

static void flag_set(const char *name) {
    char p[512];
    flag_path(p, sizeof p, name);
    int fd = open(p, O_WRONLY | O_CREAT, 0644);
    if (fd >= 0) close(fd);
}

static void flag_clear(const char *name) {
    char p[512];
    flag_path(p, sizeof p, name);
    unlink(p);
}

int main(int argc, char **argv) {
    if (argc < 3) { fprintf(stderr, "usage: rvmake N cmd [args...]\n"); return 2; }
    int n = atoi(argv[1]);
    if (n < 2) n = 2;
    int pfd[2];
    if (pipe(pfd) != 0) return 2;
    int r = fcntl(pfd[0], F_DUPFD, 230), w = fcntl(pfd[1], F_DUPFD, 231);
    close(pfd[0]);
    close(pfd[1]);
    if (r < 0 || w < 0) return 2;
    for (int i = 0; i < n - 1; i++) if (write(w, "+", 1) != 1) return 2;
    char mf[128];
    snprintf(mf, sizeof mf, " -j%d --jobserver-auth=%d,%d --jobserver-fds=%d,%d", n, r, w, r, w);
    setenv("MAKEFLAGS", mf, 1);
    /* the N-1 long recipes */
    char c;
    for (int i = 0; i < n - 1; i++) if (read(r, &c, 1) != 1) return 2;
    /* the taker */
    int sp[2];
    if (pipe(sp) != 0) return 2;
    pid_t taker = fork();
    if (taker == 0) {
        close(sp[0]);
        point('P', "s:make-taker");                 /* registers this process with the scheduler */
        if (write(sp[1], "r", 1) != 1) _exit(1);    /* ... before the recipe below is started (deterministic order of arrival) */
        close(sp[1]);
        if (read(r, &c, 1) != 1) _exit(0);          /* a recipe starts when a token is there */
        flag_set("make-holds");
        flag_set("make-took");
        point('N', "set:make-took make-taker");
        if (getenv("REDO_VERIF_SOCK") && *getenv("REDO_VERIF_SOCK"))
            point('P', "sleep:1 make-taker");       /* this recipe outlasts one polling interval of whoever waits for a token */
        else
            while (!flag_exists("make-release")) usleep(20000);
        if (write(w, &c, 1) != 1) _exit(1);
        flag_clear("make-holds");
        _exit(0);
    }
    close(sp[1]);
    if (read(sp[0], &c, 1) != 1) return 2;
    close(sp[0]);
    pid_t job = fork();
    if (job == 0) {
        execvp(argv[2], argv + 2);
        _exit(127);
    }
    int st = 0, tst = 0;
    while (waitpid(job, &st, 0) < 0 && errno == EINTR) {}
    if (!flag_exists("make-holds") && !flag_exists("make-took")) {
        kill(taker, SIGKILL);                        /* nobody ever handed a slot back: that recipe never started */
    } else {
        flag_set("make-release");                    /* (at the latest now) */
    }
    while (waitpid(taker, &tst, 0) < 0 && errno == EINTR) {}
    /* the long recipes end: their tokens go back; then count, as make does on exit */
    for (int i = 0; i < n - 1; i++) if (write(w, "+", 1) != 1) return 2;
    fcntl(r, F_SETFL, fcntl(r, F_GETFL) | O_NONBLOCK);
    int found = 0;
    while (read(r, &c, 1) == 1) found++;
    const char *tr = getenv("RV_TRACE");
    if (tr) {
        FILE *f = fopen(tr, "a");
        if (f) { fprintf(f, "M %d %d\n", found, n - 1); fclose(f); }
    }
    if (found != n - 1)
        fprintf(stderr, "rvmake: INTERNAL: Exiting with %d jobserver tokens available; should be %d!\n", found, n - 1);
    return WIFEXITED(st) ? WEXITSTATUS(st) : 1;
}
